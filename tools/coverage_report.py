#!/venv/bin/python
"""tools/coverage_report.py <dir written with VERIF_COV=dir> [file-substring]: lines of /repo/html5lib that the checks'
workloads executed vs. the executable lines (from compiled code objects).  Development aid for widening workloads."""
import glob, json, os, sys
REPO = os.environ.get("VERIF_REPO", "/repo")
root = os.path.join(REPO, "html5lib")
hit = {}
by_prop = {}
for f in glob.glob(os.path.join(sys.argv[1], "*.json")):
    prop = os.path.basename(f).split("-")[0]
    for fn, ln in json.load(open(f)):
        hit.setdefault(fn, set()).add(ln)
        by_prop.setdefault(fn, {}).setdefault(ln, set()).add(prop)


def exec_lines(path):
    src = open(path, encoding="utf-8").read()
    code = compile(src, path, "exec")
    out = set()
    stack = [code]
    while stack:
        c = stack.pop()
        for _, _, ln in c.co_lines():
            if ln is not None and ln > 0:
                out.add(ln)
        for k in c.co_consts:
            if hasattr(k, "co_lines"):
                stack.append(k)
    return out


tot_e = tot_h = 0
sel = sys.argv[2] if len(sys.argv) > 2 else None
for dp, dn, fns in os.walk(root):
    if "tests" in dp:
        continue
    for fn in sorted(fns):
        if not fn.endswith(".py"):
            continue
        path = os.path.join(dp, fn)
        rel = os.path.relpath(path, root)
        ex = exec_lines(path)
        h = hit.get(rel, set()) & ex
        tot_e += len(ex); tot_h += len(h)
        miss = sorted(ex - h)
        print("%-40s %5d/%5d  %5.1f%%" % (rel, len(h), len(ex), 100.0 * len(h) / max(1, len(ex))))
        if sel and sel in rel:
            src = open(path, encoding="utf-8").read().split("\n")
            run = []
            for ln in miss:
                print("    %5d  %s" % (ln, src[ln - 1][:130]))
print("TOTAL %d/%d %.1f%%" % (tot_h, tot_e, 100.0 * tot_h / max(1, tot_e)))
