#!/venv/bin/python
"""Judge one seeded change: tools/run_seeded.py <dir with patch.diff [demo.py]> <Cnn> [--all] [--tier quick]
Applies the patch to a scratch worktree of /repo (outside /repo and /verif), confirms the baseline suite still passes and
the demonstration fails with / passes without the change, runs the property's check against the scratch tree
(VERIF_REPO), records everything in <dir>/meta.json and removes the worktree."""
import json, os, subprocess, sys, tempfile, shutil, time
V = os.path.dirname(os.path.dirname(os.path.abspath(__file__)))
d = os.path.abspath(sys.argv[1]); prop = sys.argv[2]
props = [prop]
if "--all" in sys.argv:
    props = ["C%02d" % i for i in range(1, 21)]
tier = "quick"
if "--tier" in sys.argv: tier = sys.argv[sys.argv.index("--tier") + 1]
wt = tempfile.mkdtemp(prefix="seedwt-", dir="/tmp"); os.rmdir(wt)
def sh(cmd, **kw):
    return subprocess.run(cmd, shell=True, capture_output=True, text=True, **kw)
meta = {"property": prop, "patch": "patch.diff", "demonstration": "demo.py", "origin": "independent sub-agent given only the property text and a scratch worktree", "ran": []}
if os.path.exists(os.path.join(d, "notes.md")):
    meta["needs_to_manifest"] = open(os.path.join(d, "notes.md")).read()[:1500]
if os.path.exists(os.path.join(d, "meta.json")):
    try: meta.update({k: v for k, v in json.load(open(os.path.join(d, "meta.json"))).items() if k in ("needs", "description", "origin", "does_not_break_stated_property", "caught_by_other_property")})
    except Exception: pass
try:
    r = sh("git -C /repo worktree add -q %s HEAD" % wt); assert r.returncode == 0, r.stderr
    demo = os.path.join(d, "demo.py")
    if os.path.exists(demo):
        r = sh("PYTHONPATH=%s /venv/bin/python %s %s" % (wt, demo, wt), timeout=300)
        meta["demo_on_clean_tree_exit"] = r.returncode
    r = sh("git -C %s apply %s" % (wt, os.path.join(d, "patch.diff")))
    meta["patch_applies"] = r.returncode == 0
    if r.returncode != 0:
        meta["apply_error"] = r.stderr[-500:]
    else:
        r = sh("cd %s && /venv/bin/python -m pytest -q -p no:cacheprovider 2>&1 | tail -1" % wt, timeout=900)
        meta["baseline_with_change"] = r.stdout.strip()
        if os.path.exists(demo):
            r = sh("PYTHONPATH=%s /venv/bin/python %s %s" % (wt, demo, wt), timeout=300)
            meta["demo_with_change_exit"] = r.returncode
        evd = tempfile.mkdtemp(prefix="seedev-", dir="/tmp")
        for p in props:
            t0 = time.time()
            r = sh("cd %s && VERIF_REPO=%s VERIF_EVIDENCE_DIR=%s ./check %s --tier %s" % (V, wt, evd, p, tier), timeout=3600)
            lines = [l for l in r.stdout.splitlines() if l.startswith(("VIOLATION", "INCONCLUSIVE", "HELD", "SUMMARY"))]
            meta["ran"].append({"cmd": "VERIF_REPO=<scratch> ./check %s --tier %s" % (p, tier), "exit": r.returncode,
                                "wall_s": round(time.time() - t0, 1), "lines": [l[:400] for l in lines[:6]]})
        shutil.rmtree(evd, ignore_errors=True)
    meta["caught_by"] = [x["cmd"].split()[2] for x in meta["ran"] if x["exit"] == 1]
finally:
    sh("git -C /repo worktree remove --force %s" % wt)
json.dump(meta, open(os.path.join(d, "meta.json"), "w"), indent=1)
print(json.dumps({k: meta.get(k) for k in ("property", "patch_applies", "baseline_with_change", "demo_on_clean_tree_exit", "demo_with_change_exit", "caught_by")}))
for x in meta["ran"]:
    print(" ", x["cmd"], "exit", x["exit"], x["wall_s"], "s"); [print("     ", l[:300]) for l in x["lines"] if l.startswith(("VIOLATION", "INCONCLUSIVE"))]
