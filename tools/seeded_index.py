#!/venv/bin/python
"""Write seeded/INDEX.md (which check catches which seeded change) from the meta.json files."""
import glob, json, os, re
V = os.path.dirname(os.path.dirname(os.path.abspath(__file__)))
rows = []
for d in sorted(glob.glob(os.path.join(V, "seeded", "*", ""))):
    m = json.load(open(d + "meta.json"))
    notes = m.get("needs_to_manifest", "")
    first = ""
    for ln in notes.splitlines():
        ln = ln.strip(" #*-")
        if len(ln) > 25:
            first = ln
            break
    ran = m.get("ran", [])
    cls = ""
    for r in ran:
        for l in r.get("lines", []):
            mm = re.search(r"class=(\S+)", l)
            if mm and not cls:
                cls = mm.group(1)
    rows.append((os.path.basename(d[:-1]), m["property"], "yes" if m.get("baseline_with_change", "").startswith("972 passed") else "NO",
                 "%s/%s" % (m.get("demo_on_clean_tree_exit"), m.get("demo_with_change_exit")), ",".join(m.get("caught_by", [])) or (("n/a for this property; caught by " + ",".join(m["caught_by_other_property"])) if m.get("caught_by_other_property") else "n/a: does not break the stated property" if m.get("does_not_break_stated_property") else "MISSED"), cls[:60], first[:150]))
with open(os.path.join(V, "seeded", "INDEX.md"), "w") as f:
    f.write("# Seeded changes (independent sub-agents; each confirmed in a scratch worktree by tools/run_seeded.py)\n\n")
    f.write("| id | breaks | baseline passes with change | demo exit clean/changed | caught by (quick tier) | violation class | change |\n|---|---|---|---|---|---|---|\n")
    for r in rows:
        f.write("| " + " | ".join(x.replace("|", "/") for x in r) + " |\n")
print(len(rows), "rows;", sum(1 for r in rows if r[4] == "MISSED"), "missed")
