#!/venv/bin/python
"""Development aid: for every switch of C01, find a short input whose disagreement is explained by that switch alone."""
import sys, re, random, os, json
sys.path.insert(0, os.path.dirname(os.path.dirname(os.path.abspath(__file__))))
from vf import h5, gen, canon
from vf.props.c01 import ALL_SWITCHES, model

def h5tree(data, cont, scr):
    try:
        return h5.parse_frag(data, container=cont, scripting=scr)[0] if cont else h5.parse_doc(data, scripting=scr)[0]
    except Exception as e:
        return ("EXC", type(e).__name__)

def minimal(data, cont, scr):
    got = h5tree(data, cont, scr)
    if not isinstance(got, list) or model(data, cont, scr, ()) == got: return None
    if model(data, cont, scr, ALL_SWITCHES) != got: return None
    keep = list(ALL_SWITCHES)
    for s in ALL_SWITCHES:
        t = [x for x in keep if x != s]
        if model(data, cont, scr, t) == got: keep = t
    return keep

def shrink(data, cont, scr, key):
    toks = re.findall(r'<[^>]*>?|[^<]+', data)
    changed = True
    while changed:
        changed = False
        for i in range(len(toks)):
            t2 = toks[:i] + toks[i+1:]
            if minimal("".join(t2), cont, scr) == [key]:
                toks = t2; changed = True; break
    for i in range(len(toks)):
        m = re.match(r'<(/?[^\s/>]+)[^>]*>', toks[i])
        if m:
            t2 = toks[:i] + ["<%s>" % m.group(1)] + toks[i+1:]
            if minimal("".join(t2), cont, scr) == [key]: toks = t2
    return "".join(toks)

best = {}
N = int(sys.argv[1])
for i in range(N):
    rng = random.Random("w/%d" % i)
    r = rng.random()
    data = gen.nesting(rng) if r < 0.4 else (gen.soup(rng, 14) if r < 0.8 else gen.foreign_collide(rng))
    frag = rng.random() < 0.3
    cont = rng.choice(gen.CONTEXTS) if frag else None
    scr = rng.random() < 0.3
    m = minimal(data, cont, scr)
    if m and len(m) == 1 and (m[0] not in best or len(best[m[0]][0]) > 12):
        s = shrink(data, cont, scr, m[0])
        if m[0] not in best or len(s) < len(best[m[0]][0]):
            best[m[0]] = (s, cont, scr)
for k in ALL_SWITCHES:
    print(k, best.get(k))
json.dump({k: list(v) for k, v in best.items()}, open("/tmp/c01_witnesses.json", "w"), indent=1)
