#!/bin/bash
# tools/rerun_all_seeded.sh [parallelism]: re-judge every seeded change against the current checks (quick tier of the
# property it breaks) and print the ones that are not caught.  Rewrites seeded/*/meta.json and seeded/INDEX.md.
cd "$(dirname "$0")/.."
par=${1:-3}
for d in seeded/C*-*/; do
  d=${d%/}; id=$(basename $d); p=${id%-*}
  /venv/bin/python tools/run_seeded.py $d $p > /tmp/rs-$id.log 2>&1 &
  while [ $(jobs -r | wc -l) -ge $par ]; do wait -n; done
done
wait
/venv/bin/python tools/seeded_index.py
grep -E "MISSED" seeded/INDEX.md | cut -c1-200
