#!/venv/bin/python
"""Development aid: shrink the 'input' of a replay file while the same violation class reproduces.
tools/shrink.py Cnn replay.json"""
import sys, os, json, re, importlib
sys.path.insert(0, os.path.dirname(os.path.dirname(os.path.abspath(__file__))))
from vf import common, known
prop = sys.argv[1]; rp = json.load(open(sys.argv[2]))
common.import_repo()
mod = importlib.import_module("vf.props." + prop.lower())
keys = [e["key"] for e in known.load()["finding"] if e["property"] == prop]
klass = rp["class"]
case = common.unjson(rp["case"])
def bad(inp):
    ctx = common.Ctx(prop, "quick", 0, 0, 1, 10**9, keys)
    c = dict(case); c["input"] = inp
    try:
        mod.replay(ctx, c)
    except Exception as e:
        return False
    return any(k.split(":")[0] == klass.split(":")[0] for k in ctx.violations)
data = case["input"]
assert bad(data), "does not reproduce"
toks = re.findall(r'<[^>]*>?|[^<]+', data)
ch = True
while ch:
    ch = False
    for i in range(len(toks)):
        t2 = toks[:i] + toks[i+1:]
        if bad("".join(t2)):
            toks = t2; ch = True; break
for i in range(len(toks)):
    m = re.match(r'<(/?[^\s/>]+)[^>]*>', toks[i])
    if m and bad("".join(toks[:i] + ["<%s>" % m.group(1)] + toks[i+1:])):
        toks[i] = "<%s>" % m.group(1)
s = "".join(toks)
# character level for text tokens
i = 0
while i < len(s):
    t = s[:i] + s[i+1:]
    if bad(t): s = t
    else: i += 1
print(repr(s), {k: v for k, v in case.items() if k != "input"})
