#!/bin/bash
# tools/sweep.sh <tier> <seed> [props...]: run the registered checks one after another on the current tree; one line each.
cd "$(dirname "$0")/.."
tier=${1:-quick}; seed=${2:-0}; shift; shift
props=${@:-C01 C02 C03 C04 C05 C06 C07 C08 C09 C10 C11 C12 C13 C14 C15 C16 C17 C18 C19 C20}
for p in $props; do
  out=$(VERIF_SEED=$seed ./check $p --tier $tier 2>&1); rc=$?
  echo "$p rc=$rc $(echo "$out" | grep -E '^SUMMARY' | sed 's/SUMMARY property=[A-Z0-9]* //')"
  echo "$out" | grep -E '^(VIOLATION|INCONCLUSIVE|NOTE)' | cut -c1-600
done
