#!/venv/bin/python
"""tools/import_seeded.py <scratch worktree> <Cnn>: copy OUT/<k>/{patch.diff,demo.py,notes.md} of a sub-agent's scratch
worktree into seeded/<Cnn>-<next free number>/, remove the worktree, print the new ids."""
import glob, os, re, shutil, subprocess, sys
V = os.path.dirname(os.path.dirname(os.path.abspath(__file__)))
wt, prop = sys.argv[1], sys.argv[2]
nums = [int(re.search(r"-(\d+)$", d).group(1)) for d in glob.glob(os.path.join(V, "seeded", prop + "-*"))]
nxt = max(nums + [0]) + 1
ids = []
for k in sorted(os.listdir(os.path.join(wt, "OUT"))):
    src = os.path.join(wt, "OUT", k)
    if not (os.path.isdir(src) and os.path.exists(os.path.join(src, "patch.diff"))):
        continue
    dst = os.path.join(V, "seeded", "%s-%d" % (prop, nxt))
    os.makedirs(dst)
    for f in ("patch.diff", "demo.py", "notes.md"):
        if os.path.exists(os.path.join(src, f)):
            shutil.copy(os.path.join(src, f), dst)
    ids.append("%s-%d" % (prop, nxt))
    nxt += 1
subprocess.run(["git", "-C", "/repo", "worktree", "remove", "--force", wt])
print(" ".join(ids))
