#!/venv/bin/python
"""tools/mutate.py <file relative to repo> <Cnn[,Cnn...]> [--max N] [--seed S] [--slots K] [--out report.json]

Systematic first-order mutants of one library file (development aid; complements the seeded changes written by sub-agents):
comparison / boolean operator swaps, negated conditions, dropped members of literal tuples/sets/lists, off-by-one integer
constants, True/False swaps, deleted simple statements.  For each mutant, in a scratch worktree of /repo under /tmp:
  1. the library must import and the pinned test suite must still pass (otherwise: 'killed-by-tests', not interesting);
  2. the quick tier of the given checks runs against the mutant (VERIF_REPO, VERIF_EVIDENCE_DIR redirected);
     exit 1 => caught, exit 0 => SURVIVED (equivalent mutant or a gap: needs a human look), exit 3 => inconclusive.
Nothing is written to /repo or to /verif/evidence.  The worktrees are removed at the end."""
import ast, copy, json, os, random, subprocess, sys, time, shutil
from concurrent.futures import ThreadPoolExecutor

V = os.path.dirname(os.path.dirname(os.path.abspath(__file__)))
REPO = "/repo"


def arg(name, default):
    return sys.argv[sys.argv.index(name) + 1] if name in sys.argv else default


class Site(object):
    def __init__(self, kind, lineno, desc, apply):
        self.kind, self.lineno, self.desc, self.apply = kind, lineno, desc, apply


def find_sites(tree):
    """-> list of Site; each .apply(tree_copy_node_index) mutates a fresh copy. Nodes are addressed by walk order."""
    sites = []
    nodes = list(ast.walk(tree))
    CMP = {ast.Eq: ast.NotEq, ast.NotEq: ast.Eq, ast.Lt: ast.LtE, ast.LtE: ast.Lt, ast.Gt: ast.GtE, ast.GtE: ast.Gt,
           ast.In: ast.NotIn, ast.NotIn: ast.In, ast.Is: ast.IsNot, ast.IsNot: ast.Is}
    for idx, n in enumerate(nodes):
        ln = getattr(n, "lineno", 0)
        if isinstance(n, ast.Compare):
            for k, op in enumerate(n.ops):
                if type(op) in CMP:
                    def f(t, idx=idx, k=k, new=CMP[type(op)]):
                        list(ast.walk(t))[idx].ops[k] = new()
                    sites.append(Site("cmp", ln, "%s -> %s" % (type(op).__name__, CMP[type(op)].__name__), f))
        elif isinstance(n, ast.BoolOp):
            def f(t, idx=idx):
                m = list(ast.walk(t))[idx]
                m.op = ast.Or() if isinstance(m.op, ast.And) else ast.And()
            sites.append(Site("bool", ln, "and<->or", f))
            if len(n.values) > 2 or True:
                for k in range(len(n.values)):
                    def g(t, idx=idx, k=k):
                        m = list(ast.walk(t))[idx]
                        if len(m.values) > 1:
                            del m.values[k]
                    sites.append(Site("bool-drop", ln, "drop operand %d" % k, g))
        elif isinstance(n, ast.UnaryOp) and isinstance(n.op, ast.Not):
            def f(t, idx=idx):
                m = list(ast.walk(t))[idx]
                m.op = ast.UAdd() if False else m.op
                # replace 'not x' by 'x': done at parent level below
            # handled through If/While tests instead
        elif isinstance(n, (ast.If, ast.While, ast.IfExp)):
            def f(t, idx=idx):
                m = list(ast.walk(t))[idx]
                m.test = ast.UnaryOp(op=ast.Not(), operand=m.test)
            sites.append(Site("negate", ln, "negated condition", f))
            if isinstance(n, ast.If) and n.orelse and not (len(n.orelse) == 1 and isinstance(n.orelse[0], ast.If)):
                def g(t, idx=idx):
                    list(ast.walk(t))[idx].orelse = []
                sites.append(Site("drop-else", ln, "else branch removed", g))
        elif isinstance(n, (ast.Tuple, ast.List, ast.Set)) and len(n.elts) >= 2 and all(isinstance(e, ast.Constant) for e in n.elts):
            for k in range(len(n.elts)):
                def f(t, idx=idx, k=k):
                    del list(ast.walk(t))[idx].elts[k]
                sites.append(Site("drop-member", ln, "dropped %r from a literal" % (n.elts[k].value,), f))
        elif isinstance(n, ast.Constant) and isinstance(n.value, bool):
            def f(t, idx=idx):
                m = list(ast.walk(t))[idx]
                m.value = not m.value
            sites.append(Site("bool-const", ln, "%r flipped" % n.value, f))
        elif isinstance(n, ast.Constant) and isinstance(n.value, int) and not isinstance(n.value, bool) and abs(n.value) < 100000:
            for d in (1, -1):
                def f(t, idx=idx, d=d):
                    list(ast.walk(t))[idx].value += d
                sites.append(Site("int-const", ln, "%d -> %d" % (n.value, n.value + d), f))
        if isinstance(n, (ast.FunctionDef, ast.If, ast.For, ast.While, ast.With, ast.Try, ast.ClassDef, ast.Module)) or hasattr(n, "body"):
            for field in ("body", "orelse", "finalbody"):
                body = getattr(n, field, None)
                if not isinstance(body, list):
                    continue
                for k, st in enumerate(body):
                    if isinstance(st, (ast.Expr, ast.Assign, ast.AugAssign, ast.Delete, ast.Return, ast.Continue, ast.Break)) and not (
                            isinstance(st, ast.Expr) and isinstance(st.value, ast.Constant)):
                        def f(t, idx=idx, field=field, k=k):
                            getattr(list(ast.walk(t))[idx], field)[k] = ast.Pass()
                        sites.append(Site("delete-stmt", getattr(st, "lineno", 0), "statement deleted: %s" % type(st).__name__, f))
    return sites


def sh(cmd, timeout=3600, env=None):
    try:
        return subprocess.run(cmd, shell=True, capture_output=True, text=True, timeout=timeout, env=env)
    except subprocess.TimeoutExpired as e:
        class R(object):
            returncode, stdout, stderr = 124, "", "timeout"
        return R()


def main():
    rel = sys.argv[1]
    props = sys.argv[2].split(",")
    maxn = int(arg("--max", "100000"))
    seed = int(arg("--seed", "0"))
    slots = int(arg("--slots", "3"))
    out = arg("--out", "/tmp/mutation-%s.json" % rel.replace("/", "_"))
    lines = arg("--lines", None)
    src = open(os.path.join(REPO, rel), encoding="utf-8").read()
    tree = ast.parse(src)
    sites = find_sites(tree)
    if lines:
        lo, hi = [int(x) for x in lines.split("-")]
        sites = [s for s in sites if lo <= s.lineno <= hi]
    rng = random.Random(seed)
    rng.shuffle(sites)
    sites = sites[:maxn]
    print("%d mutation sites selected in %s" % (len(sites), rel), flush=True)
    wts = []
    for k in range(slots):
        wt = "/tmp/mutwt-%d-%d" % (os.getpid(), k)
        r = sh("git -C %s worktree add -q %s HEAD" % (REPO, wt))
        assert r.returncode == 0, r.stderr
        wts.append(wt)
    free = list(wts)
    results = []
    import threading
    lock = threading.Lock()

    def run(site_i):
        i, site = site_i
        t = copy.deepcopy(tree)
        try:
            site.apply(t)
            ast.fix_missing_locations(t)
            new = ast.unparse(t)
            compile(new, rel, "exec")
        except Exception as e:
            return {"i": i, "line": site.lineno, "kind": site.kind, "desc": site.desc, "status": "invalid", "why": repr(e)[:100]}
        with lock:
            wt = free.pop()
        try:
            with open(os.path.join(wt, rel), "w", encoding="utf-8") as f:
                f.write(new)
            r = sh("cd %s && timeout 120 /venv/bin/python -c 'import html5lib' 2>&1 && timeout 300 /venv/bin/python -m pytest -q -x -p no:cacheprovider 2>&1 | tail -1" % wt, 600)
            res = {"i": i, "line": site.lineno, "kind": site.kind, "desc": site.desc}
            if "972 passed" not in r.stdout:
                res["status"] = "killed-by-tests"
                return res
            evd = "/tmp/mutev-%d-%d" % (os.getpid(), i)
            caught, detail, inconc = [], [], []
            for p in props:
                env = dict(os.environ, VERIF_REPO=wt, VERIF_EVIDENCE_DIR=evd, VERIF_SHARDS=os.environ.get("MUT_SHARDS", "6"),
                           VERIF_BUDGET_S=os.environ.get("MUT_BUDGET_S", "300"))
                rr = sh("cd %s && ./check %s --tier quick" % (V, p), 1800, env)
                if rr.returncode == 1:
                    caught.append(p)
                    v = [l for l in rr.stdout.splitlines() if l.startswith("VIOLATION")]
                    detail.append(v[0][:200] if v else "")
                    break
                if rr.returncode not in (0, 1):
                    inconc.append(p)
            shutil.rmtree(evd, ignore_errors=True)
            res["status"] = "caught" if caught else ("inconclusive" if inconc else "SURVIVED")
            res["by"] = caught
            res["detail"] = detail[:1]
            return res
        finally:
            sh("git -C %s checkout -q -- ." % wt)
            with lock:
                free.append(wt)

    t0 = time.time()
    try:
        with ThreadPoolExecutor(max_workers=slots) as ex:
            for res in ex.map(run, list(enumerate(sites))):
                results.append(res)
                if res["status"] in ("SURVIVED", "inconclusive"):
                    print("%-12s line %-5d %-12s %s" % (res["status"], res["line"], res["kind"], res["desc"]), flush=True)
                if len(results) % 20 == 0:
                    c = {}
                    for r in results:
                        c[r["status"]] = c.get(r["status"], 0) + 1
                    print("  .. %d/%d %r %.0fs" % (len(results), len(sites), c, time.time() - t0), flush=True)
                    json.dump(results, open(out, "w"), indent=0)
    finally:
        for wt in wts:
            sh("git -C %s worktree remove --force %s" % (REPO, wt))
    c = {}
    for r in results:
        c[r["status"]] = c.get(r["status"], 0) + 1
    json.dump(results, open(out, "w"), indent=0)
    print("DONE", rel, c, "report:", out)


if __name__ == "__main__":
    main()
