#!/venv/bin/python
"""Development aid: find, shrink and print C01 disagreements that no switch set explains."""
import sys, re, random, os
sys.path.insert(0, os.path.dirname(os.path.dirname(os.path.abspath(__file__))))
from vf import h5, gen, canon
from vf.ref import rtree
from vf.props.c01 import ALL_SWITCHES, model

def h5tree(data, cont, scr):
    try:
        return h5.parse_frag(data, container=cont, scripting=scr)[0] if cont else h5.parse_doc(data, scripting=scr)[0]
    except Exception as e:
        return ("EXC", type(e).__name__)

def explained(data, cont, scr):
    got = h5tree(data, cont, scr)
    if model(data, cont, scr, ()) == got: return True
    if model(data, cont, scr, ALL_SWITCHES) == got: return True
    for s in ALL_SWITCHES:
        if model(data, cont, scr, [x for x in ALL_SWITCHES if x != s]) == got: return True
    return False

def shrink(data, cont, scr):
    toks = re.findall(r'<[^>]*>?|[^<]+', data)
    changed = True
    while changed:
        changed = False
        for i in range(len(toks)):
            t2 = toks[:i] + toks[i+1:]
            if not explained("".join(t2), cont, scr):
                toks = t2; changed = True; break
    # simplify attributes
    for i in range(len(toks)):
        m = re.match(r'<(/?[^\s/>]+)[^>]*>', toks[i])
        if m:
            t2 = toks[:i] + ["<%s>" % m.group(1)] + toks[i+1:]
            if not explained("".join(t2), cont, scr): toks = t2
    return "".join(toks)

seen = set()
lo, hi = int(sys.argv[1]), int(sys.argv[2])
fam = sys.argv[3] if len(sys.argv) > 3 else "rand"
for i in range(lo, hi):
    rng = random.Random("t/%s/%d" % (fam, i))
    r = rng.random()
    data = gen.nesting(rng) if r < 0.4 else (gen.soup(rng, 20) if r < 0.8 else gen.foreign_collide(rng))
    frag = rng.random() < 0.3
    cont = rng.choice(gen.CONTEXTS) if frag else None
    scr = rng.random() < 0.3
    if explained(data, cont, scr): continue
    s = shrink(data, cont, scr)
    key = (re.sub(r'[a-z0-9]+', 'x', s), cont if cont in ("table","tr","td","select","title","textarea","script","style","noscript","html","head","body","frameset","colgroup","caption","tbody") else "div")
    if (s, cont) in seen: continue
    seen.add((s, cont))
    print("==== %r ctx=%r scr=%r" % (s, cont, scr))
    print("  R:", canon.compact(model(s, cont, scr, ()) or [])[:400])
    print("  F:", canon.compact(model(s, cont, scr, ALL_SWITCHES) or [])[:400])
    g = h5tree(s, cont, scr)
    print("  H:", canon.compact(g)[:400] if isinstance(g, list) else g)
    sys.stdout.flush()
