#!/venv/bin/python
import sys, os, json, re
sys.path.insert(0, os.path.dirname(os.path.dirname(os.path.abspath(__file__))))
from vf import h5, canon
from vf.props.c01 import ALL_SWITCHES, model
def h5tree(data, cont, scr):
    try:
        return h5.parse_frag(data, container=cont, scripting=scr)[0] if cont else h5.parse_doc(data, scripting=scr)[0]
    except Exception as e:
        return ("EXC", type(e).__name__)
def explained(data, cont, scr):
    got = h5tree(data, cont, scr)
    if model(data, cont, scr, ()) == got: return True
    if model(data, cont, scr, ALL_SWITCHES) == got: return True
    for s in ALL_SWITCHES:
        if model(data, cont, scr, [x for x in ALL_SWITCHES if x != s]) == got: return True
    return False
for f in sys.argv[1:]:
    c = json.load(open(f))["case"]
    data, cont, scr = c["input"], c.get("container"), c.get("scripting", False)
    toks = re.findall(r'<[^>]*>?|[^<]+', data)
    ch = True
    while ch:
        ch = False
        for i in range(len(toks)):
            t2 = toks[:i] + toks[i+1:]
            if not explained("".join(t2), cont, scr):
                toks = t2; ch = True; break
    s = "".join(toks)
    print("==== %r ctx=%r scr=%r" % (s, cont, scr))
    print("  R:", canon.compact(model(s, cont, scr, ()) or [])[:500])
    print("  F:", canon.compact(model(s, cont, scr, ALL_SWITCHES) or [])[:500])
    g = h5tree(s, cont, scr); print("  H:", canon.compact(g)[:500] if isinstance(g, list) else g)
