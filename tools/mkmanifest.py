#!/venv/bin/python
"""Regenerate MANIFEST.json from the per-property modules that exist."""
import importlib, json, os, sys
sys.path.insert(0, os.path.dirname(os.path.dirname(os.path.abspath(__file__))))
os.environ.setdefault("VERIF_REPO", "/repo")
V = os.path.dirname(os.path.dirname(os.path.abspath(__file__)))
props = [json.loads(l) for l in open(os.path.join(V, "properties.jsonl"))]
checks, na = [], []
for p in props:
    pid = p["id"]
    path = os.path.join(V, "vf", "props", pid.lower() + ".py")
    if not os.path.exists(path):
        na.append({"property_id": pid, "reason": "check not built yet (build in progress; the technique applies, see DESIGN.md section 4)"})
        continue
    mod = importlib.import_module("vf.props." + pid.lower())
    checks.append({
        "property_id": pid,
        "quick_cmd": "./check %s --tier quick" % pid,
        "thorough_cmd": "./check %s --tier thorough" % pid,
        "evidence_file": "evidence/%s.json" % pid,
        "replay_cmd_template": "./check %s --replay {path}" % pid,
        "engine": "vf",
        "level_claimed": {"category": mod.LEVEL, "text": mod.LEVEL_TEXT, "design_ref": "DESIGN.md section 4, " + pid},
        "level_note": "; ".join(mod.ASSUMPTIONS),
        "technique": mod.TECHNIQUE,
    })
m = {
    "version": 1,
    "setup_cmd": "/venv/bin/python -c \"import sys; sys.path.insert(0,'/repo'); import html5lib, six, webencodings; print('ok')\"",
    "hooks": {"guard": "HTML5LIB_VERIF", "enable": "no source hooks: all instrumentation is attached at run time by the harness (class-attribute wrappers, sys.monitoring) to the modules imported from /repo's working tree",
              "baseline_off_cmd": "cd /repo && /venv/bin/python -m pytest -ra -q -p no:cacheprovider --timeout=900 --continue-on-collection-errors",
              "source_commits": [], "add_only": True},
    "engines": [{"name": "vf", "path": "vf/", "serves_properties": [c["property_id"] for c in checks],
                 "kind_free_text": "runtime monitoring harness: sharded subprocess workers run the real html5lib from /repo under generated hostile workloads; monitors/oracles judge every execution; three-valued verdicts"}],
    "checks": checks,
    "notes": "exit 0 held / 1 VIOLATION / 3 INCONCLUSIVE; env VERIF_SEED, VERIF_BUDGET_S, VERIF_REPO; known findings in KNOWN_FINDINGS.txt",
    "not_applicable": na,
}
json.dump(m, open(os.path.join(V, "MANIFEST.json"), "w"), indent=1)
print("checks:", [c["property_id"] for c in checks], "na:", [n["property_id"] for n in na])
