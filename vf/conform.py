"""G5: conforming documents from a content-model grammar.

gen_document(rng) -> Node tree.  explicit(node) -> markup with every tag explicit, attributes double-quoted,
spec escaping, extra leading LF for pre/textarea/listing.  flat(node) -> intended canonical tree.
A generated case is *used* only if html5lib parses explicit(doc) to exactly flat(doc) with zero parse errors
(accept()), so a generator mistake can only lower the accept rate, never raise a false alarm downstream.
"""
from . import canon

HTML, SVG, MATHML = canon.HTML, canon.SVG, canon.MATHML
VOID = frozenset(["area", "base", "br", "col", "embed", "hr", "img", "input", "link", "meta", "param", "source",
                  "track", "wbr"])
RAW = frozenset(["script", "style"])
RCDATA = frozenset(["title", "textarea"])
BOOLEAN = {"input": ["checked", "disabled", "readonly", "required", "autofocus", "multiple"], "option": ["selected", "disabled"],
           "select": ["multiple", "disabled", "required"], "button": ["disabled", "autofocus"], "ol": ["reversed"],
           "details": ["open"], "img": ["ismap"], "textarea": ["disabled", "readonly", "required"],
           "script": ["async", "defer"], "fieldset": ["disabled"], "optgroup": ["disabled"], "td": ["nowrap"], "*": ["hidden"]}


class Node(object):
    __slots__ = ("kind", "ns", "name", "attrs", "children", "data")

    def __init__(self, kind, name=None, ns=HTML, attrs=None, children=None, data=None):
        self.kind, self.name, self.ns = kind, name, ns
        self.attrs = attrs or []      # list of (key, value); key = plain name or (prefix, local, ns) for foreign
        self.children = children if children is not None else []
        self.data = data


def T(s):
    return Node("text", data=s)


def C(s):
    return Node("comment", data=s)


def E(name, attrs=None, children=None, ns=HTML):
    return Node("el", name, ns, attrs, children)


# ------------------------------------------------------------------ text pools
def _mk_chars():
    pools = ["abcdefghijklmnopqrstuvwxyzABCDEFGHIJKLMNOPQRSTUVWXYZ0123456789", " \t\n\x0c", "<>&\"'=`/;#-!?[]{}()*+,.:@\\^_|~$%",
             "\xa0éßİKſİK 　·  ﻿�", "\U0001F600\U00010000\U0010FFFD\U0001D11E"]
    return pools


POOLS = _mk_chars()


def rand_text(rng, maxlen=12, allow_ws_only=True):
    n = rng.randint(1, maxlen)
    out = []
    for _ in range(n):
        r = rng.random()
        if r < 0.5:
            out.append(rng.choice(POOLS[0]))
        elif r < 0.65:
            out.append(rng.choice(POOLS[1]))
        elif r < 0.85:
            out.append(rng.choice(POOLS[2]))
        elif r < 0.93:
            out.append(rng.choice(POOLS[3]))
        elif r < 0.97:
            out.append(rng.choice(POOLS[4]))
        else:
            cp = rng.randrange(0xA0, 0x30000)
            if 0xD800 <= cp <= 0xDFFF or 0xFDD0 <= cp <= 0xFDEF or (cp & 0xFFFE) == 0xFFFE:
                cp = 0x4E2D
            out.append(chr(cp))
    s = "".join(out)
    if rng.random() < 0.12:
        # capital Latin-1 letters have legacy (semicolon-less) entity names: followed by an alphanumeric or '='
        s = s + rng.choice(["\xc9cole", "\xc1RBOL", "\xd6l=1", "?q=\xc7a", "\xde2", "\xd1andu", "\xc0x", "\xd8=", "na\xcfve\xc9"])
    if rng.random() < 0.1:
        s = rng.choice(["&amp;", "&lt;b&gt;", "</p>", "<!--x-->", "&#38;", "]]>", "<![CDATA[", "&notit;", "&amp", "\n", "\n\n", " "]) + s
    if not allow_ws_only and not s.strip(" \t\n\x0c"):
        s += "x"
    return s


def rand_comment(rng):
    s = rand_text(rng, 8)
    s = s.replace("--", "- ").replace("<!", "< ").replace("\x0c", " ")
    while s.startswith(">") or s.startswith("->"):
        s = "c" + s
    if s.endswith("-"):
        s += " "
    return s


ATTRN = ["id", "class", "title", "lang", "dir", "data-x", "data-é", "style", "tabindex", "accesskey", "role", "aria-label"]


def rand_attrs(rng, name, extra=()):
    out = []
    used = set()
    n = rng.choice([0, 0, 0, 1, 1, 2, 3])
    pool = ATTRN + list(extra)
    for _ in range(n):
        a = rng.choice(pool)
        if a in used:
            continue
        used.add(a)
        out.append((a, rand_text(rng, 8) if rng.random() < 0.8 else ""))
    bl = BOOLEAN.get(name, []) + BOOLEAN["*"]
    if rng.random() < 0.25:
        b = rng.choice(bl)
        if b not in used:
            used.add(b)
            out.append((b, rng.choice(["", b])))
    return out


PHRASING = ["b", "i", "em", "strong", "span", "code", "small", "u", "s", "sub", "sup", "mark", "abbr", "cite", "q", "kbd",
            "var", "samp", "dfn", "bdi", "bdo", "time", "data", "font", "big", "tt", "strike"]
FLOW_CONTAINERS = ["div", "section", "article", "nav", "aside", "header", "footer", "main", "blockquote", "fieldset",
                   "center", "address"]


def gen_phrasing(rng, depth, ctx):
    """list of phrasing nodes.  ctx: set of flags {'a', 'label', 'button', 'interactive'}"""
    out = []
    for _ in range(rng.choice([1, 1, 2, 2, 3, 4])):
        r = rng.random()
        if r < 0.4 or depth <= 0:
            out.append(T(rand_text(rng)))
        elif r < 0.62:
            nm = rng.choice(PHRASING)
            out.append(E(nm, rand_attrs(rng, nm), gen_phrasing(rng, depth - 1, ctx)))
        elif r < 0.68 and "a" not in ctx and "button" not in ctx:
            out.append(E("a", rand_attrs(rng, "a", ["href", "target", "rel"]), gen_phrasing(rng, depth - 1, ctx | {"a"})))
        elif r < 0.73:
            out.append(E(rng.choice(["br", "wbr"]), rand_attrs(rng, "br") if rng.random() < 0.2 else []))
        elif r < 0.78:
            out.append(E("img", rand_attrs(rng, "img", ["src", "alt", "width"])))
        elif r < 0.82 and "a" not in ctx and "button" not in ctx:
            out.append(E("input", rand_attrs(rng, "input", ["type", "name", "value"])))
        elif r < 0.85 and "a" not in ctx and "button" not in ctx and "label" not in ctx:
            out.append(E("label", rand_attrs(rng, "label", ["for"]), gen_phrasing(rng, depth - 1, ctx | {"label"})))
        elif r < 0.88 and "a" not in ctx and "button" not in ctx:
            out.append(E("button", rand_attrs(rng, "button", ["type", "name"]), gen_phrasing(rng, depth - 1, ctx | {"button"})))
        elif r < 0.91:
            kids = [T(rand_text(rng, 4, False))]
            for _ in range(rng.randint(1, 2)):
                if rng.random() < 0.4:
                    kids.append(E("rp", [], [T("(")]))
                kids.append(E("rt", [], [T(rand_text(rng, 4))]))
                if rng.random() < 0.4:
                    kids.append(E("rp", [], [T(")")]))
            out.append(E("ruby", [], kids))
        elif r < 0.94 and "a" not in ctx and "button" not in ctx and "select" not in ctx:
            out.append(gen_select(rng))
        elif r < 0.97:
            out.append(C(rand_comment(rng)))
        else:
            out.append(gen_svg(rng, depth - 1) if rng.random() < 0.5 else gen_math(rng, depth - 1))
    return out


def gen_select(rng):
    kids = []
    for _ in range(rng.randint(0, 4)):
        if rng.random() < 0.3:
            kids.append(E("optgroup", rand_attrs(rng, "optgroup", ["label"]),
                          [E("option", rand_attrs(rng, "option", ["value"]), [T(rand_text(rng, 6))]) for _ in range(rng.randint(0, 3))]))
        else:
            kids.append(E("option", rand_attrs(rng, "option", ["value"]), [T(rand_text(rng, 6))] if rng.random() < 0.9 else []))
        if rng.random() < 0.1:
            kids.append(C(rand_comment(rng)))
    return E("select", rand_attrs(rng, "select", ["name"]), kids)


SVG_NAMES = ["g", "path", "circle", "rect", "text", "tspan", "defs", "clipPath", "linearGradient", "textPath", "use",
             "feBlend", "animateMotion", "symbol", "marker", "a"]
SVG_ATTRS = ["viewBox", "d", "fill", "preserveAspectRatio", "attributeName", "gradientUnits", "x", "y", "id", "class"]
FOREIGN_NS_ATTRS = [("xlink", "href", canon.XLINK), ("xlink", "title", canon.XLINK), ("xml", "lang", canon.XML),
                    ("xml", "space", canon.XML), ("xml", "base", canon.XML)]
MATH_NAMES = ["mrow", "mfrac", "msqrt", "mstyle", "msup", "mtable", "mtr", "mtd", "semantics", "mspace"]
MATH_TEXT = ["mi", "mo", "mn", "ms", "mtext"]


def foreign_attrs(rng, pool):
    out = []
    used = set()
    for _ in range(rng.choice([0, 0, 1, 2])):
        if rng.random() < 0.3:
            a = rng.choice(FOREIGN_NS_ATTRS)
        else:
            a = rng.choice(pool)
        if a in used:
            continue
        used.add(a)
        out.append((a, rand_text(rng, 6)))
    return out


def gen_svg(rng, depth, root=True):
    name = "svg" if root else rng.choice(SVG_NAMES)
    kids = []
    if depth > 0:
        for _ in range(rng.randint(0, 3)):
            r = rng.random()
            if r < 0.45:
                kids.append(gen_svg(rng, depth - 1, False))
            elif r < 0.6:
                kids.append(T(rand_text(rng, 6)))
            elif r < 0.7:
                kids.append(E(rng.choice(["foreignObject", "desc", "title"]), foreign_attrs(rng, SVG_ATTRS),
                              gen_flow(rng, depth - 1, set()), SVG))
            elif r < 0.8:
                kids.append(C(rand_comment(rng)))
            else:
                kids.append(E(rng.choice(["style", "script"]), [("href", "a.js")] if rng.random() < 0.3 else [],
                              [T(rand_text(rng, 6))] if rng.random() < 0.6 else [], SVG))
    return E(name, foreign_attrs(rng, SVG_ATTRS), kids, SVG)


def gen_math(rng, depth, root=True):
    name = "math" if root else rng.choice(MATH_NAMES)
    kids = []
    if depth > 0:
        for _ in range(rng.randint(0, 3)):
            r = rng.random()
            if r < 0.35:
                kids.append(gen_math(rng, depth - 1, False))
            elif r < 0.7:
                kids.append(E(rng.choice(MATH_TEXT), foreign_attrs(rng, ["mathvariant", "definitionURL"]),
                              [T(rand_text(rng, 5))] if rng.random() < 0.6 else gen_phrasing(rng, depth - 1, set()), MATHML))
            elif r < 0.8:
                kids.append(E("annotation-xml", [("encoding", rng.choice(["text/html", "TEXT/HTML", "application/xhtml+xml"]))],
                              gen_flow(rng, depth - 1, set()), MATHML))
            elif r < 0.9:
                kids.append(T(rand_text(rng, 4)))
            else:
                kids.append(C(rand_comment(rng)))
    return E(name, foreign_attrs(rng, ["display", "definitionURL", "mathvariant"]), kids, MATHML)


def gen_table(rng, depth):
    def ws():
        return [T(rng.choice([" ", "\n", "\n  ", "\t"]))] if rng.random() < 0.25 else []

    def cells():
        out = ws()
        for _ in range(rng.randint(0, 3)):
            nm = rng.choice(["td", "td", "th"])
            out.append(E(nm, rand_attrs(rng, nm, ["colspan", "rowspan"]), gen_flow(rng, depth - 1, set()) if rng.random() < 0.9 else []))
            out += ws()
        return out

    def rows():
        out = ws()
        for _ in range(rng.randint(0, 3)):
            out.append(E("tr", rand_attrs(rng, "tr"), cells()))
            out += ws()
            if rng.random() < 0.1:
                out.append(C(rand_comment(rng)))
        return out
    kids = ws()
    if rng.random() < 0.3:
        kids.append(E("caption", rand_attrs(rng, "caption"), gen_flow(rng, depth - 1, {"notable"})))
        kids += ws()
    for _ in range(rng.choice([0, 0, 1, 2])):
        kids.append(E("colgroup", rand_attrs(rng, "colgroup", ["span"]),
                      ws() + [E("col", rand_attrs(rng, "col", ["span"])) for _ in range(rng.randint(0, 3))] + ws()))
        kids += ws()
    if rng.random() < 0.3:
        kids.append(E("thead", rand_attrs(rng, "thead"), rows()))
        kids += ws()
    for _ in range(rng.choice([0, 1, 1, 2])):
        kids.append(E("tbody", rand_attrs(rng, "tbody"), rows()))
        kids += ws()
    if rng.random() < 0.3:
        kids.append(E("tfoot", rand_attrs(rng, "tfoot"), rows()))
        kids += ws()
    return E("table", rand_attrs(rng, "table", ["border"]), kids)


def gen_flow(rng, depth, ctx):
    out = []
    for _ in range(rng.choice([1, 1, 2, 2, 3])):
        r = rng.random()
        if depth <= 0 or r < 0.25:
            out += gen_phrasing(rng, max(depth, 0), ctx)
        elif r < 0.4:
            out.append(E("p", rand_attrs(rng, "p"), gen_phrasing(rng, depth - 1, ctx)))
        elif r < 0.55:
            nm = rng.choice(FLOW_CONTAINERS)
            out.append(E(nm, rand_attrs(rng, nm), gen_flow(rng, depth - 1, ctx)))
        elif r < 0.6 and "heading" not in ctx:
            nm = rng.choice(["h1", "h2", "h3", "h4", "h5", "h6"])
            out.append(E(nm, rand_attrs(rng, nm), gen_phrasing(rng, depth - 1, ctx)))
        elif r < 0.68:
            nm = rng.choice(["ul", "ol", "menu"])
            items = []
            for _ in range(rng.randint(0, 3)):
                items.append(E("li", rand_attrs(rng, "li", ["value"]), gen_flow(rng, depth - 1, ctx)))
                if rng.random() < 0.2:
                    items.append(T(rng.choice([" ", "\n"])))
            out.append(E(nm, rand_attrs(rng, nm), items))
        elif r < 0.73:
            items = []
            for _ in range(rng.randint(0, 3)):
                if rng.random() < 0.5:
                    items.append(E("dt", rand_attrs(rng, "dt"), gen_phrasing(rng, depth - 1, ctx)))
                else:
                    items.append(E("dd", rand_attrs(rng, "dd"), gen_flow(rng, depth - 1, ctx)))
            out.append(E("dl", rand_attrs(rng, "dl"), items))
        elif r < 0.8 and "notable" not in ctx and "a" not in ctx and "button" not in ctx:
            out.append(gen_table(rng, depth - 1))
        elif r < 0.84 and "form" not in ctx and "a" not in ctx and "button" not in ctx:
            out.append(E("form", rand_attrs(rng, "form", ["action", "method"]), gen_flow(rng, depth - 1, ctx | {"form"})))
        elif r < 0.87 and "a" not in ctx and "button" not in ctx:
            out.append(E("textarea", rand_attrs(rng, "textarea", ["name", "rows"]), [T(rand_text(rng))] if rng.random() < 0.8 else []))
        elif r < 0.91:
            nm = rng.choice(["pre", "pre", "listing"])
            out.append(E(nm, rand_attrs(rng, nm), gen_phrasing(rng, depth - 1, ctx) if rng.random() < 0.9 else []))
        elif r < 0.92:
            out.append(E("hr", rand_attrs(rng, "hr")))
        elif r < 0.935 and "a" not in ctx and "button" not in ctx:
            nm = rng.choice(["a", "ins", "del", "map", "x-custom"])
            out.append(E(nm, rand_attrs(rng, nm, ["href"] if nm == "a" else ["cite"]),
                         gen_flow(rng, depth - 1, ctx | ({"a"} if nm == "a" else set()))))
        elif r < 0.95 and "a" not in ctx and "button" not in ctx:
            out.append(E("details", rand_attrs(rng, "details"),
                         [E("summary", [], gen_phrasing(rng, depth - 1, ctx))] + gen_flow(rng, depth - 1, ctx)))
        elif r < 0.97:
            kids = gen_flow(rng, depth - 1, ctx)
            if rng.random() < 0.5:
                kids.append(E("figcaption", [], gen_flow(rng, depth - 1, ctx)))
            out.append(E("figure", rand_attrs(rng, "figure"), kids))
        else:
            out.append(C(rand_comment(rng)))
    return out


def raw_text(rng, name):
    s = rand_text(rng, 10)
    s = s.replace("</", "< /").replace("<!--", "< !--").replace("<!", "< !")
    return s


def gen_head(rng):
    kids = []

    def maybe_ws():
        if rng.random() < 0.2:
            kids.append(T(rng.choice([" ", "\n", "\n  "])))
        if rng.random() < 0.08:
            kids.append(C(rand_comment(rng)))
    maybe_ws()
    if rng.random() < 0.8:
        kids.append(E("title", rand_attrs(rng, "title") if rng.random() < 0.1 else [], [T(rand_text(rng))] if rng.random() < 0.9 else []))
        maybe_ws()
    for _ in range(rng.choice([0, 0, 1, 2, 3])):
        r = rng.random()
        if r < 0.08:
            # pragma directives other than content-type (conforming keywords): not encoding declarations
            he = rng.choice(["refresh", "default-style", "x-ua-compatible", "content-security-policy", "Refresh"])
            pair = [("http-equiv", he), ("content", rng.choice(["5", "IE=edge", "default-src 'self'", "a", "30; url=x"]))]
            if rng.random() < 0.5:
                pair.reverse()
            kids.append(E("meta", pair))
        elif r < 0.3:
            kids.append(E("meta", [("name", rng.choice(["description", "viewport", "x"])), ("content", rand_text(rng, 8))]))
        elif r < 0.5:
            kids.append(E("link", [("rel", "stylesheet"), ("href", rand_text(rng, 8))]))
        elif r < 0.7:
            kids.append(E("style", rand_attrs(rng, "style", ["media"]) if rng.random() < 0.3 else [], [T(raw_text(rng, "style"))] if rng.random() < 0.9 else []))
        elif r < 0.9:
            kids.append(E("script", rand_attrs(rng, "script", ["src", "type"]) if rng.random() < 0.3 else [], [T(raw_text(rng, "script"))] if rng.random() < 0.8 else []))
        else:
            kids.append(E("base", [("href", rand_text(rng, 6))]))
        maybe_ws()
    return E("head", rand_attrs(rng, "head") if rng.random() < 0.12 else [], kids)


def gen_document(rng, depth=3, doctype=True):
    bkids = gen_flow(rng, depth, set())
    if rng.random() < 0.06:
        bkids.insert(0, rng.choice([E("link", [("rel", "stylesheet"), ("href", "x")]), E("meta", [("itemprop", "x"), ("content", "y")])]))
    r = rng.random()
    if r < 0.08:
        # a script or style element as the first child of body (the case where the body start tag may not be omitted)
        nm = rng.choice(["script", "script", "style"])
        bkids.insert(0, E(nm, rand_attrs(rng, nm, ["type"]) if rng.random() < 0.3 else [], [T(raw_text(rng, nm))] if rng.random() < 0.8 else []))
    body = E("body", rand_attrs(rng, "body") if rng.random() < 0.2 else [], bkids)
    hkids = [gen_head(rng)]
    if rng.random() < 0.05:
        hkids.insert(0, C(rand_comment(rng)))
    # white space and comments between </head> and <body> are children of the html element
    if rng.random() < 0.2:
        hkids.append(T(rng.choice([" ", "\n", "\n  ", "\t"])))
    if rng.random() < 0.08:
        hkids.append(C(rand_comment(rng)))
        if rng.random() < 0.3:
            hkids.append(T("\n"))
    hkids.append(body)
    if rng.random() < 0.05:
        hkids.append(C(rand_comment(rng)))
    html = E("html", rand_attrs(rng, "html") if rng.random() < 0.3 else [], hkids)
    kids = []
    if doctype:
        kids.append(Node("doctype", "html"))
    if rng.random() < 0.1:
        kids.append(C(rand_comment(rng)))
    kids.append(html)
    if rng.random() < 0.1:
        kids.append(C(rand_comment(rng)))
    return Node("doc", children=kids)


# ------------------------------------------------------------------ explicit serialisation and intended tree
def esc_text(s):
    return s.replace("&", "&amp;").replace("<", "&lt;").replace(">", "&gt;")


def esc_attr(s):
    return s.replace("&", "&amp;").replace('"', "&quot;")


def attr_name(k):
    if isinstance(k, tuple):
        return "%s:%s" % (k[0], k[1])
    return k


# html5lib's boolean-attribute table on the pinned tree (part of the *description of a listed finding*, not an oracle)
BOOL_TABLE = {
    "": ["irrelevant", "itemscope"], "style": ["scoped"], "img": ["ismap"], "audio": ["autoplay", "controls"],
    "video": ["autoplay", "controls"], "script": ["defer", "async"], "details": ["open"],
    "datagrid": ["multiple", "disabled"], "command": ["hidden", "disabled", "checked", "default"], "hr": ["noshade"],
    "menu": ["autosubmit"], "fieldset": ["disabled", "readonly"], "option": ["disabled", "readonly", "selected"],
    "optgroup": ["disabled", "readonly"], "button": ["disabled", "autofocus"],
    "input": ["disabled", "readonly", "required", "autofocus", "checked", "ismap"],
    "select": ["disabled", "readonly", "autofocus", "multiple"], "ol": ["reversed"], "output": ["disabled", "readonly"],
    "iframe": ["seamless"],
}
RAWNAMES = frozenset(["style", "script", "xmp", "iframe", "noembed", "noframes", "noscript"])
P_PARENT_EXCLUDED = frozenset(["a", "audio", "del", "ins", "map", "noscript", "video"])
_SPEC_QUOTE = set(" \t\n\x0c\r\"'=<>`")
_LEGACY_QUOTE = _SPEC_QUOTE | set(chr(c) for c in range(0x21)) | set("/`\xa0\u1680\u180e\u180f\u2000\u2001\u2002\u2003\u2004"
                                                                     "\u2005\u2006\u2007\u2008\u2009\u200a\u2028\u2029\u202f\u205f\u3000")

QUIRKS = ("bool-min", "no-pre-lf", "attr-ns-dropped", "foreign-rawtext", "escape-rcdata",
          "p-end-omitted-in-excluded-parent", "body-start-omitted-before-meta-link", "solidus-glued")


def _body_omitted(n):
    return (n.kind == "el" and n.ns == HTML and n.name == "body" and not n.attrs and n.children and
            n.children[0].kind == "el" and n.children[0].ns == HTML and n.children[0].name in ("meta", "link", "template"))


def explicit(node, quirks=frozenset(), opts=None):
    """Every tag explicit, attributes double-quoted, spec escaping, extra LF for pre/textarea/listing.
    quirks: names of listed-finding mechanisms to reproduce at the markup level (used only to *classify* a
    mismatch as a known finding; the unquirked form is what defines the intended tree)."""
    opts = opts or {}
    out = []
    stack = [(node, 0, None, 0)]
    while stack:
        n, st, parent, idx = stack.pop()
        if st == 1:
            if ("p-end-omitted-in-excluded-parent" in quirks and n.ns == HTML and n.name == "p" and parent is not None and
                    parent.kind == "el" and idx == len(parent.children) - 1 and
                    (parent.ns != HTML or parent.name in P_PARENT_EXCLUDED or "-" in parent.name)):
                continue
            if ("body-start-omitted-before-meta-link" in quirks and n.ns == HTML and n.name == "head" and parent is not None and
                    idx + 1 < len(parent.children) and _body_omitted(parent.children[idx + 1])):
                continue  # </head> is (legitimately) omitted as well when the body start tag follows directly
            out.append("</%s>" % n.name)
            continue
        if n.kind == "doc":
            for k in range(len(n.children) - 1, -1, -1):
                stack.append((n.children[k], 0, n, k))
        elif n.kind == "doctype":
            out.append("<!DOCTYPE html>")
        elif n.kind == "comment":
            out.append("<!--%s-->" % n.data)
        elif n.kind == "text":
            pel = parent is not None and parent.kind == "el"
            raw = pel and parent.ns == HTML and parent.name in RAW
            if raw and "escape-rcdata" in quirks:
                raw = False
            if pel and parent.ns != HTML and parent.name in RAWNAMES and "foreign-rawtext" in quirks:
                raw = True
            d = n.data if raw else esc_text(n.data)
            if (idx == 0 and pel and parent.ns == HTML and "no-pre-lf" not in quirks and
                    parent.name in ("pre", "textarea", "listing") and d.startswith("\n")):
                d = "\n" + d
            out.append(d)
        else:
            if ("body-start-omitted-before-meta-link" in quirks and n.ns == HTML and n.name == "body" and not n.attrs and
                    n.children and n.children[0].kind == "el" and n.children[0].ns == HTML and
                    n.children[0].name in ("meta", "link", "template")):
                pass
            else:
                parts = ["<", n.name]
                last_unquoted = False
                attrs_it = n.attrs
                if opts.get("alphabetical_attributes"):
                    attrs_it = sorted(n.attrs, key=lambda kv: ((kv[0][2], kv[0][1]) if isinstance(kv[0], tuple) else ("", kv[0])))
                for k, v in attrs_it:
                    nm = attr_name(k)
                    if "attr-ns-dropped" in quirks and isinstance(k, tuple):
                        nm = k[1]
                    if ("bool-min" in quirks and n.ns is not None and
                            (nm in BOOL_TABLE.get(n.name, ()) or nm in BOOL_TABLE[""])):
                        parts.append(" " + nm)
                        last_unquoted = False
                        continue
                    parts.append(' %s="%s"' % (nm, esc_attr(v)))
                    qs = _SPEC_QUOTE if opts.get("quote_attr_values") == "spec" else _LEGACY_QUOTE
                    last_unquoted = bool(v) and opts.get("quote_attr_values") != "always" and not (set(v) & qs)
                    last = (nm, v)
                if "solidus-glued" in quirks and n.ns == HTML and n.name in VOID and n.attrs and last_unquoted:
                    # the serializer wrote name=value/> : the solidus becomes part of the unquoted value
                    parts[-1] = ' %s="%s/"' % (last[0], esc_attr(last[1]))
                parts.append(">")
                out.append("".join(parts))
            if n.ns == HTML and n.name in VOID:
                continue
            stack.append((n, 1, parent, idx))
            for k in range(len(n.children) - 1, -1, -1):
                stack.append((n.children[k], 0, n, k))
    return "".join(out)


def pieces(node):
    """The explicit form (no quirks) as [(markup piece, token)], token in the tree walkers' dict shape
    (type/name/namespace/data): lets a caller drop individual tags (optional-tag omission by its own rules)."""
    out = []
    stack = [(node, 0, None, 0)]
    while stack:
        n, st, parent, idx = stack.pop()
        if st == 1:
            out.append(("</%s>" % n.name, {"type": "EndTag", "name": n.name, "namespace": n.ns}))
            continue
        if n.kind == "doc":
            for k in range(len(n.children) - 1, -1, -1):
                stack.append((n.children[k], 0, n, k))
        elif n.kind == "doctype":
            out.append(("<!DOCTYPE html>", {"type": "Doctype", "name": "html"}))
        elif n.kind == "comment":
            out.append(("<!--%s-->" % n.data, {"type": "Comment", "data": n.data}))
        elif n.kind == "text":
            if not n.data:
                continue
            pel = parent is not None and parent.kind == "el"
            raw = pel and parent.ns == HTML and parent.name in RAW
            d = n.data if raw else esc_text(n.data)
            if idx == 0 and pel and parent.ns == HTML and parent.name in ("pre", "textarea", "listing") and d.startswith("\n"):
                d = "\n" + d
            out.append((d, {"type": "SpaceCharacters" if n.data[0] in " \t\n\x0c\r" else "Characters", "data": n.data}))
        else:
            void = n.ns == HTML and n.name in VOID
            parts = ["<", n.name] + [' %s="%s"' % (attr_name(k), esc_attr(v)) for k, v in n.attrs] + [">"]
            out.append(("".join(parts), {"type": "EmptyTag" if void else "StartTag", "name": n.name, "namespace": n.ns,
                                         "data": dict(((None, attr_name(k)), v) for k, v in n.attrs)}))
            if void:
                continue
            stack.append((n, 1, parent, idx))
            for k in range(len(n.children) - 1, -1, -1):
                stack.append((n.children[k], 0, n, k))
    return out


_UNQUOTED_BAD = set(" \t\n\x0c\r\"'=<>`")


def variant(rng, node):
    """The same conforming document in another conforming spelling: tag and attribute names of HTML elements in any
    ASCII case, attribute values double-quoted / single-quoted / unquoted / empty-attribute syntax where the syntax allows
    each, extra white space inside tags, '/>' on void and on childless foreign elements, character references in decimal,
    hexadecimal or named form, doctype spellings, white space after the document.  The intended tree is unchanged
    (apart from trailing white space, which a caller may ignore)."""
    pcs = pieces(node)
    out = []
    skip_end = set()
    raw_depth = []
    for i, (text, t) in enumerate(pcs):
        ty = t["type"]
        if ty == "Doctype":
            out.append(rng.choice(["<!DOCTYPE html>", "<!doctype html>", "<!DOCTYPE HTML>", "<!DocType html >", "<!DOCTYPE html\n>",
                                   "<!DOCTYPE html SYSTEM \"about:legacy-compat\">", "<!doctype html system 'about:legacy-compat'>"]))
            if rng.random() < 0.4:
                out.append(rng.choice(["\n", " ", "\r\n"]))
        elif ty in ("StartTag", "EmptyTag"):
            html = t["namespace"] == HTML
            name = t["name"]
            if html and rng.random() < 0.3:
                name = rng.choice([name.upper(), name.capitalize(), name])
            parts = ["<", name]
            last_unquoted = False
            for (ns_, an), v in t["data"].items():
                if html and ":" not in an and rng.random() < 0.25:
                    an = rng.choice([an.upper(), an.capitalize()])
                sp = rng.choice([" ", " ", "  ", "\n", "\t"])
                r = rng.random()
                last_unquoted = False
                if v == "" and r < 0.5:
                    parts.append(sp + an)
                elif v and r < 0.25 and not (set(v) & _UNQUOTED_BAD):
                    parts.append("%s%s=%s" % (sp, an, v.replace("&", "&amp;")))
                    last_unquoted = True
                elif r < 0.5 and "'" not in v:
                    parts.append("%s%s%s'%s'" % (sp, an, rng.choice(["=", "=", " = "]), v.replace("&", "&amp;")))
                else:
                    parts.append("%s%s%s\"%s\"" % (sp, an, rng.choice(["=", "=", " ="]), esc_attr(v)))
            childless_foreign = (not html and ty == "StartTag" and i + 1 < len(pcs) and pcs[i + 1][1]["type"] == "EndTag" and
                                 name not in ("title", "textarea"))
            if (ty == "EmptyTag" or childless_foreign) and rng.random() < 0.5:
                parts.append(" /" if last_unquoted or rng.random() < 0.5 else "/")
                if childless_foreign:
                    skip_end.add(i + 1)
            elif rng.random() < 0.15:
                parts.append(rng.choice([" ", "\n"]))
            parts.append(">")
            out.append("".join(parts))
            if ty == "StartTag" and html and t["name"] in RAW:
                raw_depth.append(t["name"])
        elif ty == "EndTag":
            if i in skip_end:
                continue
            if raw_depth and t["namespace"] == HTML and raw_depth[-1] == t["name"]:
                raw_depth.pop()
            nm = t["name"]
            if t["namespace"] == HTML and rng.random() < 0.3:
                nm = nm.upper()
            out.append("</%s%s>" % (nm, rng.choice(["", "", "", " ", "\n"])))
        elif ty in ("Characters", "SpaceCharacters"):
            if raw_depth:
                out.append(text)
                continue
            o = []
            for k, c in enumerate(text):
                o.append(c)
            s2 = "".join(o)
            # text is already escaped by pieces(): vary the spelling of the references
            s2 = s2.replace("&lt;", rng.choice(["&lt;", "&#60;", "&#x3c;", "&#x3C;", "&LT;"]))
            s2 = s2.replace("&amp;", rng.choice(["&amp;", "&#38;", "&#x26;", "&AMP;"]))
            s2 = s2.replace("&gt;", rng.choice(["&gt;", ">", "&#62;", "&GT;"]))
            out.append(s2)
        else:
            out.append(text)
    tail = rng.choice(["", "", "\n", "\r\n", " \n"])
    return "".join(out) + tail, bool(tail)


def flat(node):
    out = []
    stack = [(node, 0)]
    while stack:
        n, st = stack.pop()
        if st == 1:
            out.append(("E",))
            continue
        if n.kind == "doc":
            out.append(("doc",))
            for c in reversed(n.children):
                stack.append((c, 0))
        elif n.kind == "doctype":
            out.append(("D", "html", None, None))
        elif n.kind == "comment":
            out.append(("C", n.data))
        elif n.kind == "text":
            canon._text(out, n.data)
        else:
            attrs = tuple(("{%s}%s" % (k[2], k[1]) if isinstance(k, tuple) else k, v) for k, v in n.attrs)
            out.append(("S", n.ns, n.name, attrs))
            stack.append((n, 1))
            for c in reversed(n.children):
                stack.append((c, 0))
    return out


def accept(rng, depth=3):
    """-> (markup, intended_flat, tree, parser) or None when html5lib does not parse the explicit form to the
    intended tree without errors (generator reject)."""
    from . import h5
    doc = gen_document(rng, depth)
    markup = explicit(doc)
    want = flat(doc)
    got, p, tree = h5.parse_doc(markup, kind="etree-full")
    if got != want or p.errors:
        return None, markup, want, got, p
    return doc, markup, want, got, p


# ------------------------------------------------------------------ one injected syntax error
INJECTIONS = ("dup-attr", "dup-attr-case", "no-doctype", "stray-end-tag", "nul-in-text", "bad-numeric-ref", "unknown-named-ref",
              "abrupt-comment", "bogus-comment", "attrs-glued", "solidus-on-non-void", "end-tag-with-attr", "end-tag-with-solidus",
              "eof-in-tag", "eof-in-comment", "truncated-with-open-element", "misnested-formatting", "text-in-table", "nested-a",
              "missing-required-end-tag", "eof-in-doctype", "lt-in-attr-name", "quote-in-unquoted-value")
_NEVER_OMISSIBLE = frozenset(["div", "section", "article", "span", "b", "i", "em", "strong", "a", "table", "ul", "ol", "dl", "form",
                              "blockquote", "pre", "h1", "h2", "h3", "title", "textarea", "select", "button", "svg", "math", "figure",
                              "details", "nav", "aside", "header", "footer", "main", "fieldset", "code", "small", "u", "s", "sub", "sup"])


def inject_error(rng, node, kind=None):
    """The explicit form of a conforming document with exactly ONE construct the standard defines as a parse error.
    -> (markup, kind) or (None, kind) when the document offers no place for that kind."""
    pcs = pieces(node)
    kind = kind or rng.choice(INJECTIONS)
    texts = [t for t, _ in pcs]
    toks = [k for _, k in pcs]
    starts = [i for i, k in enumerate(toks) if k["type"] in ("StartTag", "EmptyTag") and k["namespace"] == HTML]
    body_i = next((i for i, k in enumerate(toks) if k["type"] == "StartTag" and k["name"] == "body"), None)
    if body_i is None:
        return None, kind
    # positions inside body where flow content may be added: right after the body start tag
    at = body_i + 1

    def join():
        return "".join(texts)
    if kind in ("dup-attr", "dup-attr-case"):
        cands = [i for i in starts if toks[i]["data"]]
        if not cands:
            i = rng.choice(starts)
            texts[i] = texts[i][:-1] + ' id="a" %s="b">' % ("ID" if kind == "dup-attr-case" else "id")
        else:
            i = rng.choice(cands)
            an = list(toks[i]["data"])[0][1]
            if ":" in an or any(ord(c) > 127 for c in an):
                return None, kind  # (only ASCII letters are case-folded by the tokenizer)
            texts[i] = texts[i][:-1] + ' %s="z">' % (an.upper() if kind == "dup-attr-case" else an)
    elif kind == "no-doctype":
        texts = [t for t, k in zip(texts, toks) if k["type"] != "Doctype"]
    elif kind == "stray-end-tag":
        texts.insert(at, rng.choice(["</b>", "</div>", "</xyz>", "</td>", "</li>", "</h1>"]))
    elif kind == "nul-in-text":
        texts.insert(at, "a\x00b")
    elif kind == "bad-numeric-ref":
        texts.insert(at, rng.choice(["&#0;", "&#x80;", "&#xD800;", "&#x110000;", "&#xFFFE;", "&#1;", "&#65 ", "&#x41 "]))
    elif kind == "unknown-named-ref":
        texts.insert(at, rng.choice(["&bogusname;", "&amp", "&notit;"]) + " ")
    elif kind == "abrupt-comment":
        texts.insert(at, rng.choice(["<!-->", "<!--->", "<!--x--!>", "<!--a<!--b-->"]))
    elif kind == "bogus-comment":
        texts.insert(at, rng.choice(["<!x>", "<?xml version='1.0'?>", "</ >", "<!DOCTYPE html>"]))
    elif kind == "attrs-glued":
        texts.insert(at, '<span id="a"class="b">x</span>')
    elif kind == "solidus-on-non-void":
        texts.insert(at, rng.choice(["<div/>x</div>", "<span />x</span>", "<p/>"]))
    elif kind == "end-tag-with-attr":
        texts.insert(at, '<div>x</div class="a">')
    elif kind == "end-tag-with-solidus":
        texts.insert(at, "<div>x</div/>")
    elif kind == "lt-in-attr-name":
        texts.insert(at, '<span a<b="c">x</span>')
    elif kind == "quote-in-unquoted-value":
        texts.insert(at, "<span title=a\"b>x</span>")
    elif kind == "misnested-formatting":
        texts.insert(at, rng.choice(["<b><i>x</b></i>", "<b><p>x</b></p>", "<p><b>x</p>y</b>"]))
    elif kind == "text-in-table":
        texts.insert(at, rng.choice(["<table>x<tr><td>y</td></tr></table>", "<table><tr>x<td>y</td></tr></table>", "<table><b>x</b></table>"]))
    elif kind == "nested-a":
        texts.insert(at, rng.choice(["<a href=x>1<a href=y>2</a></a>", "<form><form></form></form>", "<button><button></button></button>",
                                     "<h1><h2>x</h2></h1>", "<nobr><nobr>x</nobr></nobr>"]))
    elif kind in ("eof-in-tag", "eof-in-comment", "eof-in-doctype", "truncated-with-open-element", "missing-required-end-tag"):
        # a cut / deletion that leaves an element open whose end tag is required
        opens = []
        stack = []
        for i, k in enumerate(toks):
            if k["type"] == "StartTag":
                stack.append(i)
            elif k["type"] == "EndTag" and stack:
                j = stack.pop()
                if (k["namespace"] == HTML and k["name"] in _NEVER_OMISSIBLE and j > body_i and
                        (kind != "missing-required-end-tag" or k["name"] not in ("title", "textarea"))):
                    opens.append((j, i))
        if kind == "eof-in-doctype":
            return rng.choice(["<!DOCTYPE", "<!DOCTYPE html", "<!DOCTYPE html PUBLIC \"x", "<!DOCTYPE html SYSTEM 'y"]), kind
        if kind == "eof-in-tag":
            i = rng.choice([i for i in starts if i > body_i] or starts)
            cut = texts[i][:max(2, len(texts[i]) - rng.randint(1, 3))]
            return "".join(texts[:i]) + cut, kind
        if kind == "eof-in-comment":
            return "".join(texts[:at]) + rng.choice(["<!--x", "<!--x-", "<!--x--", "<!--", "<!-"]), kind
        if not opens:
            return None, kind
        j, i = rng.choice(opens)
        if kind == "truncated-with-open-element":
            cutat = rng.randint(j + 1, i)
            return "".join(texts[:cutat]), kind
        texts[i] = ""   # missing-required-end-tag
    else:
        raise ValueError(kind)
    return join(), kind
