"""Walker token streams of parsed trees + the harness's own stream automaton and rebuilder."""
from . import canon, gen

WS = " \t\n\x0c\r"
# void elements of the HTML standard (2020 text)
VOID_SPEC = frozenset(["area", "base", "br", "col", "embed", "hr", "img", "input", "link", "meta", "param", "source",
                       "track", "wbr"])
TOKEN_TYPES = frozenset(["StartTag", "EndTag", "EmptyTag", "Characters", "SpaceCharacters", "Comment", "Doctype"])


def attr_key(ns, local):
    return "{%s}%s" % (ns, local) if ns else local


def rebuild(tokens, start=None):
    """Own rebuilder: token stream -> flat canonical tree.  start in (None, 'doc', 'frag')."""
    out = []
    if start:
        out.append((start,))
    for t in tokens:
        ty = t["type"]
        if ty in ("StartTag", "EmptyTag"):
            out.append(("S", t["namespace"], t["name"],
                        tuple((attr_key(ns, ln), v) for (ns, ln), v in t["data"].items())))
            if ty == "EmptyTag":
                out.append(("E",))
        elif ty == "EndTag":
            out.append(("E",))
        elif ty in ("Characters", "SpaceCharacters"):
            canon._text(out, t["data"])
        elif ty == "Comment":
            out.append(("C", t["data"]))
        elif ty == "Doctype":
            out.append(("D", t["name"] or "", t["publicId"], t["systemId"]))
    return out


def automaton(tokens):
    """Own well-formedness automaton (independent of html5lib's Lint).  -> list of (class, message)."""
    bad = []
    stack = []
    for i, t in enumerate(tokens):
        ty = t.get("type")
        if ty not in TOKEN_TYPES:
            bad.append(("unknown-token-type:%s" % ty, "token %d has type %r: %r" % (i, ty, t)))
            continue
        if ty in ("StartTag", "EmptyTag", "EndTag"):
            ns, name = t.get("namespace"), t.get("name")
            if not isinstance(name, str) or name == "":
                bad.append(("empty-name", "token %d: %r" % (i, t)))
                continue
            if ns is not None and (not isinstance(ns, str) or ns == ""):
                bad.append(("bad-namespace", "token %d: %r" % (i, t)))
            is_void = (ns in (None, canon.HTML)) and name in VOID_SPEC
            if ty == "StartTag":
                if is_void:
                    bad.append(("void-as-start-tag:" + name, "token %d: void HTML element %s emitted as StartTag" % (i, name)))
                stack.append((ns, name))
            elif ty == "EndTag":
                if is_void:
                    bad.append(("void-as-end-tag:" + name, "token %d: void HTML element %s emitted as EndTag" % (i, name)))
                if not stack:
                    bad.append(("unbalanced", "token %d: EndTag %s with empty stack" % (i, name)))
                else:
                    top = stack.pop()
                    if top != (ns, name):
                        bad.append(("mismatched-end", "token %d: EndTag %r closes %r" % (i, (ns, name), top)))
            if ty != "EndTag":
                d = t.get("data")
                if not isinstance(d, dict):
                    bad.append(("attrs-not-dict", "token %d" % i))
                else:
                    for k, v in d.items():
                        if not (isinstance(k, tuple) and len(k) == 2 and isinstance(k[1], str) and k[1] != "" and
                                (k[0] is None or (isinstance(k[0], str) and k[0] != "")) and isinstance(v, str)):
                            bad.append(("bad-attribute", "token %d: %r=%r" % (i, k, v)))
        elif ty == "SpaceCharacters":
            d = t.get("data")
            if not isinstance(d, str) or d == "" or d.strip(WS) != "":
                bad.append(("space-token-with-non-space", "token %d: %r" % (i, d)))
        elif ty == "Characters":
            d = t.get("data")
            if not isinstance(d, str) or d == "":
                bad.append(("empty-characters", "token %d" % i))
            elif d[0] in WS or d[-1] in WS:
                bad.append(("characters-not-trimmed", "token %d: %r" % (i, d[:40])))
        elif ty == "Comment":
            if not isinstance(t.get("data"), str):
                bad.append(("comment-data", "token %d" % i))
    if stack:
        bad.append(("unbalanced", "%d elements left open at the end: %r" % (len(stack), stack[-3:])))
    return bad


def norm_stream(tokens, sort_attrs=True):
    """Comparable form after concatenating adjacent character tokens."""
    out = []
    for t in tokens:
        ty = t["type"]
        if ty in ("Characters", "SpaceCharacters"):
            if out and out[-1][0] == "T":
                out[-1] = ("T", out[-1][1] + t["data"])
            else:
                out.append(("T", t["data"]))
        elif ty in ("StartTag", "EmptyTag"):
            items = [(k, v) for k, v in t["data"].items()]
            if sort_attrs:
                items = sorted(items, key=lambda kv: (kv[0][0] or "", kv[0][1]))
            out.append((ty, t["namespace"], t["name"], tuple(items)))
        elif ty == "EndTag":
            out.append((ty, t["namespace"], t["name"]))
        elif ty == "Comment":
            out.append(("C", t["data"]))
        elif ty == "Doctype":
            out.append(("D", t["name"] or "", t["publicId"], t["systemId"]))
        else:
            out.append((ty, repr(t)))
    return out


def copy_tokens(tokens):
    out = []
    for t in tokens:
        c = dict(t)
        if isinstance(c.get("data"), dict):
            c["data"] = type(c["data"])(c["data"])
        out.append(c)
    return out


def whitespace_rich(rng):
    """Input rich in whitespace runs that span tokens, nested/unbalanced preserve elements."""
    P = ["pre", "textarea", "script", "style", "xmp", "iframe", "noembed", "noframes", "noscript", "listing",
         "plaintext", "title"]
    N = ["div", "p", "b", "span", "svg", "td", "table", "ul", "li", "math", "br", "img"]
    out, op = [], []
    for _ in range(rng.randint(2, 18)):
        r = rng.random()
        if r < 0.25:
            t = rng.choice(P if rng.random() < 0.45 else N)
            out.append("<%s>" % t)
            op.append(t)
        elif r < 0.40 and op:
            out.append("</%s>" % op.pop(rng.choice([-1, -1, 0])))
        elif r < 0.45:
            out.append("</%s>" % rng.choice(P + N))
        else:
            n = rng.randint(1, 5)
            out.append("".join(rng.choice([" ", "\t", "\n", "\x0c", "\r", "&#32;", "&#9;", "&#10;", "&#12;", "&#13;",
                                           "  ", "\x0b", "\xa0", "\u2003", "\u3000", "a", "b c", "x", "&nbsp;",
                                           "<!--c-->"]) for _ in range(n)))
    return "".join(out)


def gen_input(rng, maxtok=25):
    r = rng.random()
    if r < 0.45:
        return gen.soup(rng, maxtok)
    if r < 0.7:
        return gen.nesting(rng)
    if r < 0.9:
        return whitespace_rich(rng)
    return gen.random_text(rng, rng.randint(1, 60))
