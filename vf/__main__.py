"""Runner: ./check Cnn --tier quick|thorough [--replay path]

Spawns one worker subprocess per shard (plain subprocesses: a dying child is an
observed event, never a hang), merges what the monitors recorded, applies the
inconclusive floors, writes evidence/<id>.json and prints the verdict lines.
exit 0 held / 1 violation / 3 inconclusive.
"""
import argparse
import importlib
import json
import os
import subprocess
import sys
import tempfile
import time

from . import common, known as knownmod


def merge(dumps):
    m = {"counters": {}, "sets": {}, "evaluations": 0, "nontrivial": set(), "samples": [],
         "violations": {}, "viol_counts": {}, "known": {}, "inconclusive": [], "shard_wall_s": []}
    for d in dumps:
        for k, v in d["counters"].items():
            if k.startswith("max:"):
                m["counters"][k] = max(m["counters"].get(k, 0), v)
            else:
                m["counters"][k] = m["counters"].get(k, 0) + v
        for k, v in d["sets"].items():
            m["sets"].setdefault(k, set()).update(tuple(x) if isinstance(x, list) else x for x in v)
        m["evaluations"] += d["evaluations"]
        m["nontrivial"].update(d["nontrivial"])
        for s in d["samples"]:
            if len(m["samples"]) < 8:
                m["samples"].append(s)
        for k, v in d["violations"].items():
            lst = m["violations"].setdefault(k, [])
            for x in v:
                if len(lst) < 3:
                    lst.append(x)
        for k, v in d["viol_counts"].items():
            m["viol_counts"][k] = m["viol_counts"].get(k, 0) + v
        for k, v in d["known"].items():
            e = m["known"].setdefault(k, {"count": 0, "first": None, "detail": ""})
            e["count"] += v["count"]
            if e["first"] is None:
                e["first"], e["detail"] = v["first"], v["detail"]
        for r in d["inconclusive"]:
            if r not in m["inconclusive"]:
                m["inconclusive"].append(r)
        m["shard_wall_s"].append(round(d["wall_s"], 1))
    return m


def main():
    # details quote inputs verbatim, lone surrogates included: never let printing them fail a run
    for st in (sys.stdout, sys.stderr):
        try:
            st.reconfigure(errors="backslashreplace")
        except Exception:
            pass
    ap = argparse.ArgumentParser()
    ap.add_argument("prop")
    ap.add_argument("--tier", default=os.environ.get("VERIF_TIER", "quick"), choices=["quick", "thorough"])
    ap.add_argument("--replay")
    ap.add_argument("--shards", type=int, default=int(os.environ.get("VERIF_SHARDS", "0")))
    a = ap.parse_args()
    prop = a.prop.upper()
    seed = int(os.environ.get("VERIF_SEED", "0"))
    mod = importlib.import_module("vf.props." + prop.lower())
    listed = knownmod.load()
    keys = [e["key"] for e in listed["finding"] if e["property"] == prop]
    t0 = time.time()

    if a.replay:
        with open(a.replay) as f:
            rp = json.load(f)
        ctx = common.Ctx(prop, rp.get("tier", a.tier), rp.get("seed", seed), 0, 1, 10 ** 9, keys)
        common.import_repo()
        if isinstance(rp.get("case"), dict) and rp["case"].get("library_exception"):
            # recorded by the worker's last-resort trap: there is no single case to re-run, the traceback is the witness
            print(rp["case"].get("traceback", ""))
            print("VIOLATION property=%s replay=%s class=%s :: %s (re-run the check with VERIF_SEED=%s to reproduce)" % (
                prop, a.replay, rp.get("class"), rp.get("detail"), rp.get("seed", seed)))
            return 1
        mod.replay(ctx, common.unjson(rp["case"]))
        d = ctx.dump()
        if d["violations"]:
            for k, v in d["violations"].items():
                print("VIOLATION property=%s replay=%s class=%s :: %s" % (prop, a.replay, k, v[0]["detail"]))
            return 1
        for k, v in d["known"].items():
            print("KNOWN-FINDING: property=%s key=%s %s" % (prop, k, v["detail"]))
        print("REPLAY property=%s: no violation reproduced" % prop)
        return 0

    nsh = a.shards or min(16, os.cpu_count() or 1)
    nsh = min(nsh, getattr(mod, "MAX_SHARDS", 16))
    default_budget = mod.BUDGET_S[a.tier]
    budget = float(os.environ.get("VERIF_BUDGET_S", default_budget))
    watchdog = budget * 4 + 600
    tmpd = tempfile.mkdtemp(prefix="vf-%s-" % prop, dir=os.environ.get("VERIF_TMP", None))
    procs = []
    env = dict(os.environ)
    env.setdefault("PYTHONHASHSEED", "0")
    env["PYTHONDONTWRITEBYTECODE"] = "1"
    for i in range(nsh):
        out = os.path.join(tmpd, "shard%d.json" % i)
        errf = open(os.path.join(tmpd, "shard%d.err" % i), "w")
        p = subprocess.Popen([sys.executable, "-bb", "-m", "vf.worker", prop, a.tier, str(seed), str(i), str(nsh),
                              str(budget), out], cwd=common.VERIF_DIR, env=env, stdout=errf, stderr=errf)
        procs.append((i, p, out, errf))
    dumps = []
    runner_inconc = []
    crashed = []
    for i, p, out, errf in procs:
        try:
            rc = p.wait(timeout=max(1.0, watchdog - (time.time() - t0)))
        except subprocess.TimeoutExpired:
            p.kill()
            p.wait()
            rc = None
            runner_inconc.append("shard %d hit the wall-clock watchdog (%ds)" % (i, watchdog))
        errf.close()
        if rc == 0 and os.path.exists(out):
            with open(out) as f:
                dumps.append(json.load(f))
        elif rc is not None:
            with open(errf.name) as f:
                tail = f.read()[-3000:]
            crashed.append((i, rc, tail))
    for i, rc, tail in crashed:
        # a worker that died is an observed event; the module decides (C03) else inconclusive
        runner_inconc.append("shard %d exited with status %s: %s" % (i, rc, tail.strip().splitlines()[-1:] or ""))
        sys.stderr.write("---- shard %d stderr tail ----\n%s\n" % (i, tail))
    for f in os.listdir(tmpd):
        os.unlink(os.path.join(tmpd, f))
    os.rmdir(tmpd)

    m = merge(dumps) if dumps else merge([])
    m["inconclusive"].extend(runner_inconc)
    fin = getattr(mod, "finalize", None)
    extra = {}
    if fin and dumps:
        class V(object):
            pass
        v = V()
        v.tier, v.seed, v.budget_s = a.tier, seed, budget
        extra = fin(m, v) or {}
    if m["evaluations"] == 0:
        m["inconclusive"].append("no case was evaluated")

    # ---- replay files and verdict lines
    evdir = os.environ.get("VERIF_EVIDENCE_DIR", "evidence")  # redirected when a scratch mutant is being judged
    rdir = os.path.join(common.VERIF_DIR, evdir, "replay")
    os.makedirs(rdir, exist_ok=True)
    lines = []
    nviol = 0
    for klass, lst in sorted(m["violations"].items()):
        for x in lst[:1]:
            hh = "%016x" % common.h64([klass, x["case"]])
            path = os.path.join(evdir, "replay", "%s-%s.json" % (prop, hh))
            with open(os.path.join(common.VERIF_DIR, path), "w") as f:
                json.dump({"property": prop, "class": klass, "case": x["case"], "detail": x["detail"],
                           "seed": seed, "tier": a.tier}, f, indent=1)
            lines.append("VIOLATION property=%s replay=%s class=%s count=%d :: %s"
                         % (prop, path, klass, m["viol_counts"].get(klass, 1), common.short(x["detail"], 400)))
            nviol += 1
    known_lines = []
    for e in listed["finding"]:
        if e["property"] != prop:
            continue
        hit = m["known"].get(e["key"])
        if hit and hit["count"]:
            known_lines.append("KNOWN-FINDING: property=%s key=%s %s (reproduced %d times this run)"
                               % (prop, e["key"], e["text"], hit["count"]))
        else:
            known_lines.append("NOTE property=%s listed finding key=%s did not reproduce in this run (stale?)"
                               % (prop, e["key"]))

    wall = time.time() - t0
    ev = {
        "property_id": prop, "tier": a.tier, "seed": seed, "level": mod.LEVEL,
        "coverage": {
            "evaluations": m["evaluations"],
            "distinct_nontrivial": len(m["nontrivial"]),
            "rule": mod.RULE,
            "samples": m["samples"] or ["(none)"],
            "monitor_events": dict(sorted(m["counters"].items())),
            "observed_sets": {k: (sorted(v, key=repr) if len(v) <= 400 else
                                  {"size": len(v), "first": sorted(v, key=repr)[:50]})
                              for k, v in sorted(m["sets"].items())},
            "known_findings": {k: v["count"] for k, v in m["known"].items()},
            "inconclusive_reasons": m["inconclusive"],
            "shards": nsh, "shard_wall_s": m["shard_wall_s"],
            "repo": common.REPO,
        },
        "assumptions": getattr(mod, "ASSUMPTIONS", []),
        "wall_s": round(wall, 2),
        "violations": sum(m["viol_counts"].values()),
    }
    if getattr(mod, "EXHAUSTIVE", {}).get(a.tier) and not m["inconclusive"]:
        ev["coverage"]["exhaustive"] = True
    ev["coverage"].update(extra)
    os.makedirs(os.path.join(common.VERIF_DIR, evdir), exist_ok=True)
    with open(os.path.join(common.VERIF_DIR, evdir, prop + ".json"), "w") as f:
        json.dump(common.jsonable(ev), f, indent=1, sort_keys=True)
        f.write("\n")

    for ln in known_lines:
        print(ln)
    print("SUMMARY property=%s tier=%s seed=%d evaluations=%d distinct_nontrivial=%d violations=%d wall=%.1fs"
          % (prop, a.tier, seed, m["evaluations"], len(m["nontrivial"]), sum(m["viol_counts"].values()), wall))
    if nviol:
        for ln in lines:
            print(ln)
        return 1
    if m["inconclusive"]:
        for r in m["inconclusive"]:
            print("INCONCLUSIVE property=%s reason=%s" % (prop, r))
        return 3
    print("HELD property=%s on what was observed" % prop)
    return 0


if __name__ == "__main__":
    sys.exit(main())
