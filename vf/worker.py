"""One shard of one property: python -m vf.worker PROP tier seed i n budget outfile"""
import faulthandler
import importlib
import json
import sys

from . import common, known


def main():
    prop, tier, seed, i, n, budget, out = sys.argv[1:8]
    faulthandler.enable()
    keys = [e["key"] for e in known.load()["finding"] if e["property"] == prop]
    ctx = common.Ctx(prop, tier, int(seed), int(i), int(n), float(budget), keys)
    mod = importlib.import_module("vf.props." + prop.lower())
    import signal

    class Stalled(BaseException):
        pass
    last = [-1, 0]

    def tick(*a):
        # generic wall-clock watchdog: no judged case for 150 s => give up on this shard (inconclusive, never a verdict)
        cur = ctx.evaluations + sum(ctx.counters.values())
        if cur == last[0]:
            last[1] += 1
            if last[1] >= 5:
                raise Stalled()
        else:
            last[0], last[1] = cur, 0
    signal.signal(signal.SIGALRM, tick)
    signal.setitimer(signal.ITIMER_REAL, 30, 30)
    try:
        common.import_repo()
        if ctx.i == 0:
            # committed witnesses of listed findings / fixed defects are part of every run
            for kind, key, case in known.witnesses(prop):
                before = sum(ctx.viol_counts.values())
                kb = ctx.known.get(key, {}).get("count", 0) if kind == "finding" else 0
                mod.replay(ctx, case)
                ctx.count("witness:%s" % kind)
                if kind == "fixed" and sum(ctx.viol_counts.values()) == before:
                    ctx.count("fixed_witnesses_passed")
        mod.shard(ctx)
    except common.Inconclusive as e:
        ctx.inconc(str(e))
    except Stalled:
        import traceback
        ctx.inconc("shard %d made no progress for 150 s (wall-clock watchdog): %s" % (ctx.i, traceback.format_exc(limit=-4)[-400:]))
    signal.setitimer(signal.ITIMER_REAL, 0)
    with open(out, "w") as f:
        json.dump(ctx.dump(), f)


if __name__ == "__main__":
    main()
