"""One shard of one property: python -m vf.worker PROP tier seed i n budget outfile"""
import faulthandler
import importlib
import json
import os
import sys

from . import common, known


def main():
    prop, tier, seed, i, n, budget, out = sys.argv[1:8]
    faulthandler.enable()
    keys = [e["key"] for e in known.load()["finding"] if e["property"] == prop]
    ctx = common.Ctx(prop, tier, int(seed), int(i), int(n), float(budget), keys)
    mod = importlib.import_module("vf.props." + prop.lower())
    import signal

    class Stalled(BaseException):
        pass
    last = [-1, 0]

    def tick(*a):
        # generic wall-clock watchdog: no judged case for STALL_S (default 150 s) => give up on this shard
        # (inconclusive, never a verdict)
        cur = ctx.evaluations + sum(ctx.counters.values())
        if cur == last[0]:
            last[1] += 1
            if last[1] >= max(1, int(getattr(mod, "STALL_S", 150)) // 30):
                raise Stalled()
        else:
            last[0], last[1] = cur, 0
    signal.signal(signal.SIGALRM, tick)
    signal.setitimer(signal.ITIMER_REAL, 30, 30)
    cov = None
    if os.environ.get("VERIF_COV"):
        # development aid (tools/coverage_report.py): which lines of the library the workload reached; one-shot LINE
        # events (DISABLE after the first hit), so the cost is negligible.  Not used by the registered commands.
        cov = set()
        m = sys.monitoring
        root = os.path.join(common.REPO, "html5lib") + os.sep

        def _line(code, line):
            if code.co_filename.startswith(root):
                cov.add((code.co_filename[len(root):], line))
            return m.DISABLE
        m.use_tool_id(1, "vf-cov")
        m.register_callback(1, m.events.LINE, _line)
        m.set_events(1, m.events.LINE)
    try:
        common.import_repo()
        if ctx.i == 0:
            # committed witnesses of listed findings / fixed defects are part of every run
            for kind, key, case in known.witnesses(prop):
                before = sum(ctx.viol_counts.values())
                kb = ctx.known.get(key, {}).get("count", 0) if kind == "finding" else 0
                mod.replay(ctx, case)
                ctx.count("witness:%s" % kind)
                if kind == "fixed" and sum(ctx.viol_counts.values()) == before:
                    ctx.count("fixed_witnesses_passed")
        mod.shard(ctx)
    except common.Inconclusive as e:
        ctx.inconc(str(e))
    except Exception as e:
        # An exception raised BY THE LIBRARY (innermost frame inside the tree under test) that reaches the harness outside
        # any of its own traps means a call the workload makes on every run did not return: the property's observation
        # could not even be made.  That is reported as a violation with the traceback; an exception raised by harness
        # code itself is a harness crash (re-raised: the runner turns it into 'inconclusive').
        import traceback
        tb = e.__traceback__
        while tb.tb_next is not None:
            tb = tb.tb_next
        fn = tb.tb_frame.f_code.co_filename
        if not fn.startswith(common.REPO + os.sep):
            raise
        text = traceback.format_exc()
        ctx.violation("library-raised:%s@%s:%s" % (type(e).__name__, os.path.basename(fn), tb.tb_frame.f_code.co_name),
                      {"library_exception": True, "traceback": text[-3000:]},
                      "%s: %s escaped the library during the workload (shard %d); the rest of this shard did not run" % (
                          type(e).__name__, str(e)[:200], ctx.i))
    except Stalled:
        import traceback
        ctx.inconc("shard %d made no progress for %d s (wall-clock watchdog): %s" % (ctx.i, getattr(mod, "STALL_S", 150), traceback.format_exc(limit=-4)[-400:]))
    signal.setitimer(signal.ITIMER_REAL, 0)
    if cov is not None:
        os.makedirs(os.environ["VERIF_COV"], exist_ok=True)
        with open(os.path.join(os.environ["VERIF_COV"], "%s-%s.json" % (prop, i)), "w") as f:
            json.dump(sorted(cov), f)
    with open(out, "w") as f:
        json.dump(ctx.dump(), f)


if __name__ == "__main__":
    main()
