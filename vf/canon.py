"""Canonical trees, by direct traversal (never via html5lib's walkers/testSerializer).

A canonical tree is a *flat* pre-order event list (no recursion anywhere, so
trees tens of thousands deep compare, hash and serialise without trouble):

    ("doc",) | ("frag",)                        optional first event
    ("S", ns, local, ((attr_key, value), ...))  element start, attributes in storage order
    ("E",)                                      element end
    ("T", text)                                 text (adjacent text merged, empty dropped)
    ("C", data)                                 comment
    ("D", name, publicId, systemId)             doctype

attr_key is the Clark-style string "{ns}local" for namespaced attributes and
the plain name otherwise (an ElementTree cannot tell an attribute literally
named "{x}y" from a namespaced one; DESIGN 3.3).
"""
from xml.dom import Node
import xml.etree.ElementTree as ET

HTML = "http://www.w3.org/1999/xhtml"
MATHML = "http://www.w3.org/1998/Math/MathML"
SVG = "http://www.w3.org/2000/svg"
XLINK = "http://www.w3.org/1999/xlink"
XML = "http://www.w3.org/XML/1998/namespace"
XMLNS = "http://www.w3.org/2000/xmlns/"


def _text(out, s):
    if not s:
        return
    if out and out[-1][0] == "T":
        out[-1] = ("T", out[-1][1] + s)
    else:
        out.append(("T", s))


def _split_clark(tag):
    if tag[:1] == "{":
        i = tag.find("}")
        if i > 0:
            return tag[1:i], tag[i + 1:]
    return None, tag


def canon_etree(root):
    """root: ElementTree Element (DOCUMENT_ROOT / DOCUMENT_FRAGMENT / any element)."""
    out = []

    def open_node(e):
        tag = e.tag
        if tag is ET.Comment:
            out.append(("C", e.text if e.text is not None else ""))
            return False
        if tag == "<!DOCTYPE>":
            out.append(("D", e.text or "", e.get("publicId"), e.get("systemId")))
            return False
        if tag == "DOCUMENT_ROOT":
            out.append(("doc",))
            _text(out, e.text)
            return True
        if tag == "DOCUMENT_FRAGMENT":
            out.append(("frag",))
            _text(out, e.text)
            return True
        ns, local = _split_clark(tag)
        out.append(("S", ns, local, tuple((k, v) for k, v in e.attrib.items())))
        _text(out, e.text)
        return True

    stack = []
    if open_node(root):
        stack.append((root, iter(root)))
    while stack:
        e, it = stack[-1]
        child = next(it, None)
        if child is None:
            stack.pop()
            if e.tag not in ("DOCUMENT_ROOT", "DOCUMENT_FRAGMENT"):
                out.append(("E",))
            if stack:
                _text(out, e.tail)
            continue
        if open_node(child):
            stack.append((child, iter(child)))
        else:
            _text(out, child.tail)
    return out


def canon_dom(root):
    out = []

    def open_node(n):
        t = n.nodeType
        if t == Node.TEXT_NODE or t == Node.CDATA_SECTION_NODE:
            _text(out, n.data)
            return False
        if t == Node.COMMENT_NODE:
            out.append(("C", n.data))
            return False
        if t == Node.DOCUMENT_TYPE_NODE:
            out.append(("D", n.name or "", n.publicId, n.systemId))  # minidom stores a missing name as None
            return False
        if t == Node.DOCUMENT_NODE:
            out.append(("doc",))
            return True
        if t == Node.DOCUMENT_FRAGMENT_NODE:
            out.append(("frag",))
            return True
        if t == Node.ELEMENT_NODE:
            attrs = []
            am = n.attributes
            for i in range(am.length):
                a = am.item(i)
                if a.namespaceURI:
                    attrs.append(("{%s}%s" % (a.namespaceURI, a.localName), a.value))
                else:
                    attrs.append((a.nodeName, a.value))
            # html5lib passes the whole tag name as the qualified name, so nodeName (not localName,
            # which minidom derives by splitting at ':') is the element's name
            out.append(("S", n.namespaceURI or None, n.nodeName, tuple(attrs)))
            return True
        raise ValueError("unexpected dom node type %r" % t)

    stack = []
    if open_node(root):
        stack.append((root, iter(list(root.childNodes))))
    while stack:
        n, it = stack[-1]
        child = next(it, None)
        if child is None:
            stack.pop()
            if n.nodeType == Node.ELEMENT_NODE:
                out.append(("E",))
            continue
        if open_node(child):
            stack.append((child, iter(list(child.childNodes))))
    return out


def strip_html_ns(flat):
    """Expected view when namespaceHTMLElements=False: HTML elements carry no namespace."""
    return [("S", None, e[2], e[3]) if e[0] == "S" and e[1] == HTML else e for e in flat]


def render(flat, limit=4000):
    """Human-readable indented dump of a flat canonical tree (for reports)."""
    lines = []
    d = 0
    short = {HTML: "", SVG: "svg ", MATHML: "math ", None: "(nons) "}
    for e in flat:
        k = e[0]
        if k in ("doc", "frag"):
            lines.append("#" + k)
            d = 1
        elif k == "S":
            lines.append("%s<%s%s>%s" % ("  " * d, short.get(e[1], "{%s}" % e[1]), e[2],
                                          "".join(" %s=%r" % (a, v) for a, v in e[3])))
            d += 1
        elif k == "E":
            d -= 1
        elif k == "T":
            lines.append("%s%r" % ("  " * d, e[1]))
        elif k == "C":
            lines.append("%s<!--%r-->" % ("  " * d, e[1]))
        elif k == "D":
            lines.append("%s<!DOCTYPE %r %r %r>" % ("  " * d, e[1], e[2], e[3]))
        if sum(len(x) for x in lines[-1:]) and len(lines) * 20 > limit:
            lines.append("  ...")
            break
    return "\n".join(lines)


def compact(flat):
    """One-line bracket form, for compact diffs in violation details."""
    out = []
    for e in flat:
        k = e[0]
        if k in ("doc", "frag"):
            out.append("#" + k)
        elif k == "S":
            p = {HTML: "", SVG: "svg:", MATHML: "math:", None: "~"}.get(e[1], "{%s}" % e[1])
            out.append("<%s%s%s>" % (p, e[2], "".join(" %s=%r" % (a, v) for a, v in e[3])))
        elif k == "E":
            out.append("</>")
        elif k == "T":
            out.append(repr(e[1]))
        elif k == "C":
            out.append("<!--%r-->" % (e[1],))
        elif k == "D":
            out.append("<!D %r %r %r>" % (e[1], e[2], e[3]))
    return "".join(out)


def first_diff(a, b):
    n = min(len(a), len(b))
    for i in range(n):
        if a[i] != b[i]:
            return i
    return n if len(a) != len(b) else -1


def diff_text(a, b, la="expected", lb="observed", width=700):
    i = first_diff(a, b)
    if i < 0:
        return "equal"
    lo = max(0, i - 3)
    return "first difference at event %d; %s: %s | %s: %s" % (
        i, la, compact(a[lo:i + 6])[:width], lb, compact(b[lo:i + 6])[:width])


def tup(flat):
    """JSON round trip turns tuples into lists; restore the canonical tuple form."""
    out = []
    for e in flat:
        if e[0] == "S":
            out.append(("S", e[1], e[2], tuple((a, v) for a, v in e[3])))
        else:
            out.append(tuple(e))
    return out


def elements(flat):
    """[(ns, local, attrs, depth)] of all elements."""
    res = []
    d = 0
    for e in flat:
        if e[0] == "S":
            res.append((e[1], e[2], e[3], d))
            d += 1
        elif e[0] == "E":
            d -= 1
    return res


def children_of(flat, idx):
    """Indices of the direct children events of the container starting at flat[idx]."""
    res = []
    d = 0
    i = idx + 1
    n = len(flat)
    while i < n:
        e = flat[i]
        if e[0] == "S":
            if d == 0:
                res.append(i)
            d += 1
        elif e[0] == "E":
            if d == 0:
                break
            d -= 1
        elif d == 0:
            res.append(i)
        i += 1
    return res
