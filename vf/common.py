"""Shared harness pieces: repo import, per-shard context, hashing, seeded RNG."""
import hashlib
import json
import os
import random
import sys
import time

VERIF_DIR = os.path.dirname(os.path.dirname(os.path.abspath(__file__)))
REPO = os.path.abspath(os.environ.get("VERIF_REPO", "/repo"))


class Inconclusive(Exception):
    pass


def import_repo():
    """Import html5lib from the working tree under REPO (fresh import = rebuild)."""
    if REPO not in sys.path:
        sys.path.insert(0, REPO)
    import html5lib
    f = os.path.abspath(html5lib.__file__)
    if not f.startswith(REPO + os.sep):
        raise Inconclusive("html5lib imported from %s, not from %s" % (f, REPO))
    return html5lib


def h64(obj):
    """Stable 64-bit content hash of a JSON-able object."""
    s = json.dumps(obj, sort_keys=True, ensure_ascii=True, default=repr)
    return int.from_bytes(hashlib.blake2b(s.encode("ascii"), digest_size=8).digest(), "big")


def short(obj, n=300):
    s = obj if isinstance(obj, str) else json.dumps(obj, ensure_ascii=True, default=repr)
    return s if len(s) <= n else s[:n] + "...(%d chars)" % len(s)


def jsonable(x):
    """Make arbitrary case data JSON-able (bytes -> {"__bytes__": hex})."""
    if isinstance(x, bytes):
        return {"__bytes__": x.hex()}
    if isinstance(x, (list, tuple)):
        return [jsonable(i) for i in x]
    if isinstance(x, dict):
        return {str(k): jsonable(v) for k, v in x.items()}
    if isinstance(x, (set, frozenset)):
        return sorted(jsonable(i) for i in x)
    if isinstance(x, (str, int, float, bool)) or x is None:
        return x
    return repr(x)


def unjson(x):
    if isinstance(x, dict):
        if set(x) == {"__bytes__"}:
            return bytes.fromhex(x["__bytes__"])
        return {k: unjson(v) for k, v in x.items()}
    if isinstance(x, list):
        return [unjson(i) for i in x]
    return x


class Ctx(object):
    """Per-shard recording context.  Everything a property module observes goes
    through this object; the runner merges the shards."""

    MAX_VIOL_PER_CLASS = 3
    MAX_SAMPLES = 6

    def __init__(self, prop, tier, seed, i, n, budget_s, known_keys):
        self.prop = prop
        self.tier = tier
        self.seed = seed
        self.i = i
        self.n = n
        self.budget_s = budget_s
        self.t0 = time.time()
        self.known_keys = set(known_keys)
        self.counters = {}
        self.sets = {}
        self.evaluations = 0
        self.nontrivial = set()
        self.samples = []
        self.violations = {}   # class -> list of dict
        self.viol_counts = {}
        self.known = {}        # key -> {"count": n, "first": case}
        self.inconclusive = []
        self._k = 0

    # -- partitioning / randomness
    def mine(self, idx=None):
        """Round-robin ownership of deterministic enumeration items."""
        if idx is None:
            idx = self._k
            self._k += 1
        return idx % self.n == self.i

    def rng(self, family, idx=0):
        return random.Random("%d/%s/%s/%s" % (self.seed, self.prop, family, idx))

    def time_left(self):
        return self.budget_s - (time.time() - self.t0)

    # -- recording
    def count(self, key, k=1):
        self.counters[key] = self.counters.get(key, 0) + k

    def add(self, setname, value):
        self.sets.setdefault(setname, set()).add(value)

    def case(self, key, nontrivial=True):
        """One execution judged by the oracle.  key = content identifying the case."""
        self.evaluations += 1
        if nontrivial:
            self.nontrivial.add(h64(key))

    def sample(self, obj):
        if len(self.samples) < self.MAX_SAMPLES:
            self.samples.append(jsonable(obj))

    def violation(self, klass, case, detail=""):
        self.viol_counts[klass] = self.viol_counts.get(klass, 0) + 1
        lst = self.violations.setdefault(klass, [])
        if len(lst) < self.MAX_VIOL_PER_CLASS:
            lst.append({"class": klass, "case": jsonable(case), "detail": short(detail, 2000)})

    def known_finding(self, key, case, detail=""):
        """A mismatch fully explained by a listed finding.  Keys that the
        committed KNOWN_FINDINGS.txt does not list for this property are
        violations."""
        if key not in self.known_keys:
            self.violation("unlisted-finding:" + key, case, detail)
            return
        e = self.known.setdefault(key, {"count": 0, "first": None, "detail": ""})
        e["count"] += 1
        if e["first"] is None:
            e["first"] = jsonable(case)
            e["detail"] = short(detail, 600)

    def inconc(self, reason):
        if reason not in self.inconclusive:
            self.inconclusive.append(reason)

    def dump(self):
        return {
            "counters": self.counters,
            "sets": {k: sorted(v, key=repr) for k, v in self.sets.items()},
            "evaluations": self.evaluations,
            "nontrivial": sorted(self.nontrivial),
            "samples": self.samples,
            "violations": self.violations,
            "viol_counts": self.viol_counts,
            "known": self.known,
            "inconclusive": self.inconclusive,
            "wall_s": time.time() - self.t0,
        }
