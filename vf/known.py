"""KNOWN_FINDINGS.txt reader (the file is never written at run time)."""
import json
import os
import re

from . import common

PATH = os.path.join(common.VERIF_DIR, "KNOWN_FINDINGS.txt")
_F = re.compile(r"^finding:\s+property=(C\d\d)\s+key=(\S+)\s+witness=(\S+)\s+::\s+(.*)$")
_X = re.compile(r"^fixed:\s+property=(C\d\d)\s+(\S+)\s+(.*?)(?:\s+\(witness=(\S+)\))?$")


def load():
    out = {"finding": [], "fixed": []}
    if not os.path.exists(PATH):
        return out
    with open(PATH) as f:
        for ln in f:
            ln = ln.rstrip("\n")
            if not ln.strip() or ln.lstrip().startswith("#"):
                continue
            m = _F.match(ln)
            if m:
                out["finding"].append({"property": m.group(1), "key": m.group(2), "witness": m.group(3),
                                       "text": m.group(4)})
                continue
            m = _X.match(ln)
            if m:
                out["fixed"].append({"property": m.group(1), "commit": m.group(2), "text": m.group(3),
                                     "witness": m.group(4)})
                continue
            raise ValueError("KNOWN_FINDINGS.txt: cannot parse line: %r" % ln)
    return out


def witnesses(prop):
    """[(kind, key_or_commit, case)] for the property; case = witness JSON 'case' field."""
    res = []
    k = load()
    for e in k["finding"]:
        if e["property"] == prop:
            with open(os.path.join(common.VERIF_DIR, e["witness"])) as f:
                w = json.load(f)
            res.append(("finding", e["key"], common.unjson(w["case"])))
    for e in k["fixed"]:
        if e["property"] == prop and e["witness"]:
            with open(os.path.join(common.VERIF_DIR, e["witness"])) as f:
                w = json.load(f)
            res.append(("fixed", e["commit"], common.unjson(w["case"])))
    return res
