"""C13 - the optional-tags filter removes only omissible tags."""
import itertools
import time

from .. import streams, gen, conform, canon
from ..common import short

LEVEL = "exploration"
TECHNIQUE = ("runtime monitoring: subsequence/identity monitor on every filtered stream + independent implementation "
             "of the HTML-syntax tag-omission rules with full context (R-omit) + parse-equivalence on conforming "
             "documents; all-triples synthetic windows over a name vocabulary")
LEVEL_TEXT = ("Held on the executions produced: every filtered stream was an in-order subsequence of its input, every "
              "removed token was an attribute-less start tag or an end tag that the independently implemented omission "
              "rules allow at that position (known deviations keyed by rule), and conforming documents parsed to the "
              "same tree with and without omission. The (previous, current, next) window space is enumerated completely "
              "for a 46-name vocabulary; everything else is exploration.")
BUDGET_S = {"quick": 45, "thorough": 600}
RULE = ("cases = (a) walker streams (etree, dom) of parsed soup/misnesting input and of conforming documents, judged by "
        "R-omit with parent/sibling context; (b) synthetic three-token windows: all (previous, current, next) over 46 "
        "names x token kinds (complete); (c) conforming documents: parse(serialize(filtered)) == parse(serialize("
        "unfiltered)). distinct_nontrivial = distinct streams in which the filter removed at least one token, plus "
        "distinct windows whose current token is a tag.")
ASSUMPTIONS = [
    "R-omit = the 'optional tags' section of the HTML syntax (2020 text), DESIGN Appendix D; the filter may be more conservative",
    "rules apply to HTML-namespace elements only; an omitted tag of a foreign element is a deviation",
    "walker streams are balanced, so parent/sibling context is well defined; synthetic windows are judged only by the context-free clauses",
]

HTMLNS = canon.HTML
OMISSIBLE = frozenset(["html", "head", "body", "li", "dt", "dd", "p", "rt", "rp", "optgroup", "option", "colgroup", "caption",
                       "thead", "tbody", "tfoot", "tr", "td", "th"])
P_FOLLOW = frozenset(["address", "article", "aside", "blockquote", "details", "div", "dl", "fieldset", "figcaption",
                      "figure", "footer", "form", "h1", "h2", "h3", "h4", "h5", "h6", "header", "hgroup", "hr", "main",
                      "menu", "nav", "ol", "p", "pre", "section", "table", "ul"])
P_PARENT_EXCLUDED = frozenset(["a", "audio", "del", "ins", "map", "noscript", "video"])


def is_html(tok):
    return tok.get("namespace") in (None, HTMLNS)


def analyse(tokens):
    """parent[i] = index of the enclosing StartTag (or None); match[i] = index of the matching tag."""
    parent = [None] * len(tokens)
    match = [None] * len(tokens)
    st = []
    for i, t in enumerate(tokens):
        parent[i] = st[-1] if st else None
        if t["type"] == "StartTag":
            st.append(i)
        elif t["type"] == "EndTag":
            if not st:
                return None
            j = st.pop()
            if tokens[j]["name"] != t["name"]:
                return None
            match[i], match[j] = j, i
            parent[i] = st[-1] if st else None
    if st:
        return None
    return parent, match


def nxt_kind(tokens, i):
    """What immediately follows token i: ('el', name, html?) | ('text', ws_only) | ('comment',) | ('end',) | ('eof',)"""
    if i + 1 >= len(tokens):
        return ("eof",)
    t = tokens[i + 1]
    ty = t["type"]
    if ty in ("StartTag", "EmptyTag"):
        return ("el", t["name"], is_html(t))
    if ty == "SpaceCharacters":
        return ("text", True)
    if ty == "Characters":
        return ("text", False)
    if ty == "Comment":
        return ("comment",)
    if ty == "EndTag":
        return ("end",)
    return ("other", ty)


def followed_by(nk, names):
    return nk[0] == "el" and nk[2] and nk[1] in names


def allowed(tokens, i, parent, match, removed):
    """R-omit: may token i (a tag of an HTML element) be omitted here?  removed = set of indices the filter removed
    (needed for 'preceded by an element whose end tag has been omitted')."""
    t = tokens[i]
    name = t["name"]
    if not is_html(t) or name not in OMISSIBLE:
        return False
    nk = nxt_kind(tokens, i)
    no_more = nk[0] in ("end", "eof")
    if t["type"] == "StartTag":
        if t["data"]:
            return False
        empty = match[i] == i + 1
        if name == "html":
            return nk[0] != "comment"
        if name == "head":
            return empty or nk[0] == "el"
        if name == "body":
            if empty:
                return True
            if nk[0] == "comment" or (nk[0] == "text" and nk[1]):
                return False
            if nk[0] == "el" and nk[2] and nk[1] in ("meta", "link", "script", "style", "template"):
                return False
            return True
        if name == "colgroup":
            if empty or not followed_by(nk, ("col",)):
                return False
            p = i - 1
            if p >= 0 and tokens[p]["type"] == "EndTag" and tokens[p]["name"] == "colgroup" and p in removed:
                return False
            return True
        if name == "tbody":
            if empty or not followed_by(nk, ("tr",)):
                return False
            p = i - 1
            if p >= 0 and tokens[p]["type"] == "EndTag" and tokens[p]["name"] in ("tbody", "thead", "tfoot") and p in removed:
                return False
            return True
        return False
    # end tags
    if name == "html" or name == "body":
        return nk[0] != "comment"
    if name == "head":
        return not (nk[0] == "comment" or (nk[0] == "text" and nk[1]) or
                    (nk[0] == "text" and not nk[1] and False))
    if name == "li":
        return followed_by(nk, ("li",)) or no_more
    if name == "dt":
        return followed_by(nk, ("dt", "dd"))
    if name == "dd":
        return followed_by(nk, ("dt", "dd")) or no_more
    if name == "p":
        if followed_by(nk, P_FOLLOW):
            return True
        if no_more:
            pi = parent[i]
            if pi is None:
                return True
            pt = tokens[pi]
            return is_html(pt) and pt["name"] not in P_PARENT_EXCLUDED and "-" not in pt["name"]
        return False
    if name in ("rt", "rp"):
        return followed_by(nk, ("rt", "rp")) or no_more
    if name == "optgroup":
        return followed_by(nk, ("optgroup",)) or no_more
    if name == "option":
        return followed_by(nk, ("option", "optgroup")) or no_more
    if name in ("colgroup", "caption"):
        return not (nk[0] == "comment" or (nk[0] == "text" and nk[1]))
    if name == "thead":
        return followed_by(nk, ("tbody", "tfoot"))
    if name == "tbody":
        return followed_by(nk, ("tbody", "tfoot")) or no_more
    if name == "tfoot":
        return no_more
    if name == "tr":
        return followed_by(nk, ("tr",)) or no_more
    if name in ("td", "th"):
        return followed_by(nk, ("td", "th")) or no_more
    return False


def classify_deviation(tokens, i, parent, match, removed=frozenset()):
    """Name the listed finding(s) that fully account for the removal of token i, or None."""
    t = tokens[i]
    nk = nxt_kind(tokens, i)
    if nk[0] == "el" and not nk[2] and is_html(t):
        # the follower is a foreign element: the filter reads its name as if it were an HTML element's (same mechanism as
        # 'namespace-ignored'); with the follower taken as HTML the removal must be allowed or be another listed finding
        t2 = list(tokens)
        t2[i + 1] = dict(tokens[i + 1], namespace=canon.HTML)
        if allowed(t2, i, parent, match, removed):
            return "namespace-ignored"
        k2 = classify_deviation(t2, i, parent, match, removed)
        if k2 and k2 != "namespace-ignored":
            return "namespace-ignored+" + k2
        return k2
    name = t["name"]
    if not is_html(t) and name in OMISSIBLE:
        return "namespace-ignored"
    if t["type"] == "EndTag" and name == "p" and nk[0] in ("end",):
        pi = parent[i]
        if pi is not None:
            pt = tokens[pi]
            if (not is_html(pt)) or pt["name"] in P_PARENT_EXCLUDED or "-" in pt["name"]:
                return "p-end-parent-not-checked"
    if t["type"] == "EndTag" and name == "p" and nk[0] == "el" and nk[1] in ("datagrid", "dialog", "dir") and nk[2]:
        return "p-end-before-obsolete-follower"
    if t["type"] == "StartTag" and name == "body" and nk[0] == "el" and nk[2] and nk[1] in ("meta", "link", "template"):
        return "body-start-before-meta-link"
    if t["type"] == "EndTag" and name == "tfoot" and followed_by(nk, ("tbody",)):
        return "tfoot-end-before-tbody"
    return None


def judge_stream(ctx, case, tokens, label, contextual=True):
    """-> (removed index set, deviation index list) or None"""
    from html5lib.filters import optionaltags
    inp = tokens
    out = list(optionaltags.Filter(list(inp)))
    # subsequence by identity, in order
    removed = set()
    j = 0
    for i, t in enumerate(inp):
        if j < len(out) and out[j] is t:
            j += 1
        else:
            removed.add(i)
    if j != len(out):
        ctx.violation("not-a-subsequence", case, "%s: output token %d (%r) does not come from the input in order" % (
            label, j, out[j] if j < len(out) else None))
        return None
    ctx.count("streams:" + label)
    ctx.count("removed_tokens", len(removed))
    struct = analyse(inp) if contextual else None
    devs = []
    for i in sorted(removed):
        t = inp[i]
        ty = t["type"]
        if ty not in ("StartTag", "EndTag"):
            ctx.violation("removed-non-tag", case, "%s: removed token %d %r" % (label, i, t))
            return None
        if ty == "StartTag" and t["data"]:
            ctx.violation("removed-start-tag-with-attributes", case, "%s: removed %r" % (label, t))
            return None
        if t["name"] not in OMISSIBLE:
            ctx.violation("removed-tag-of-non-omissible-element:" + ("substring-of-html" if t["name"] in "html" else "other"),
                          case, "%s: removed %s of element %r" % (label, ty, t["name"]))
            return None
        ctx.add("removed_kinds", "%s %s" % ("<>" if ty == "StartTag" else "</>", t["name"]))
        if struct:
            parent, match = struct
            if not allowed(inp, i, parent, match, removed):
                key = classify_deviation(inp, i, parent, match, removed)
                if key:
                    devs.append(i)
                    for k1 in key.split("+"):
                        ctx.known_finding(k1, case, "%s: %s %s removed where the syntax does not allow it (next: %r)" % (
                            label, ty, t["name"], nxt_kind(inp, i)))
                else:
                    ctx.violation("omitted-where-not-allowed:%s-%s" % ("start" if ty == "StartTag" else "end", t["name"]),
                                  case, "%s: token %d %s %s removed; next=%r parent=%r" % (
                                      label, i, ty, t["name"], nxt_kind(inp, i),
                                      inp[parent[i]]["name"] if parent[i] is not None else None))
                    return None
            else:
                ctx.count("removals_allowed_by_R_omit")
    return removed, devs


VOCAB = ["html", "head", "body", "li", "dt", "dd", "p", "rt", "rp", "optgroup", "option", "colgroup", "col", "thead",
         "tbody", "tfoot", "tr", "td", "th", "m", "h", "t", "l", "ht", "tm", "ml", "htm", "tml", "div", "span", "a",
         "script", "style", "meta", "link", "table", "select", "ul", "dl", "ruby", "dialog", "datagrid", "dir", "hr",
         "x-y", "svg"]


def window_tokens():
    toks = []
    for nm in VOCAB:
        toks.append(("S", nm))
        toks.append(("E", nm))
    toks += [("Sa", "p"), ("Sa", "html"), ("Sa", "body"), ("Sa", "tbody"), ("Sa", "m"), ("V", "col"), ("V", "meta"),
             ("V", "link"), ("V", "hr"), ("V", "br"), ("T", "x"), ("W", " "), ("C", "c"), ("D", "html"), ("N", "amp"), ("X", "err"), None]
    return toks


def mk(tok):
    k, v = tok
    if k == "S":
        return {"type": "StartTag", "name": v, "namespace": HTMLNS, "data": {}}
    if k == "Sa":
        return {"type": "StartTag", "name": v, "namespace": HTMLNS, "data": {(None, "id"): "x"}}
    if k == "E":
        return {"type": "EndTag", "name": v, "namespace": HTMLNS}
    if k == "V":
        return {"type": "EmptyTag", "name": v, "namespace": HTMLNS, "data": {}}
    if k == "T":
        return {"type": "Characters", "data": v}
    if k == "W":
        return {"type": "SpaceCharacters", "data": v}
    if k == "C":
        return {"type": "Comment", "data": v}
    if k == "D":
        return {"type": "Doctype", "name": v, "publicId": None, "systemId": None}
    if k == "N":
        return {"type": "Entity", "name": v}
    if k == "X":
        return {"type": "SerializeError", "data": v}


def window_allowed(prev, cur, nxt):
    """R-omit on a three-token window.  In a well-formed stream the token after an end tag, when it is itself an end
    tag, closes the parent, so 'no more content in the parent' and the parent's name are both visible in the window.
    -> True / False / None (not decidable from the window: needs 'preceding end tag was omitted')."""
    kind, name = cur
    nk = ("eof",) if nxt is None else (("el", nxt[1], True) if nxt[0] in ("S", "Sa", "V") else ("text", True) if nxt[0] == "W" else
                                        ("text", False) if nxt[0] == "T" else ("comment",) if nxt[0] == "C" else
                                        ("end", nxt[1]) if nxt[0] == "E" else ("other",))
    if name not in OMISSIBLE or kind == "Sa":
        return False
    if nk[0] == "other":
        return None
    if kind == "S":
        empty = nk[0] == "end" and nk[1] == name
        if name == "html":
            return nk[0] != "comment"
        if name == "head":
            return empty or nk[0] == "el"
        if name == "body":
            if empty or nk[0] in ("eof",):
                return True
            if nk[0] == "comment" or (nk[0] == "text" and nk[1]):
                return False
            return not (nk[0] == "el" and nk[1] in ("meta", "link", "script", "style", "template"))
        if name == "colgroup":
            if empty or not (nk[0] == "el" and nk[1] == "col"):
                return False
            return None if (prev is not None and prev[0] == "E" and prev[1] == "colgroup") else True
        if name == "tbody":
            if empty or not (nk[0] == "el" and nk[1] == "tr"):
                return False
            return None if (prev is not None and prev[0] == "E" and prev[1] in ("tbody", "thead", "tfoot")) else True
        return False
    no_more = nk[0] in ("end", "eof")

    def fb(names):
        return nk[0] == "el" and nk[1] in names
    if name in ("html", "body"):
        return nk[0] != "comment"
    if name == "head":
        return not (nk[0] == "comment" or (nk[0] == "text" and nk[1]))
    if name == "li":
        return fb(("li",)) or no_more
    if name == "dt":
        return fb(("dt", "dd"))
    if name == "dd":
        return fb(("dt", "dd")) or no_more
    if name == "p":
        if fb(P_FOLLOW):
            return True
        if nk[0] == "eof":
            return True
        if nk[0] == "end":
            return nk[1] not in P_PARENT_EXCLUDED and "-" not in nk[1]
        return False
    if name in ("rt", "rp"):
        return fb(("rt", "rp")) or no_more
    if name == "optgroup":
        return fb(("optgroup",)) or no_more
    if name == "option":
        return fb(("option", "optgroup")) or no_more
    if name in ("colgroup", "caption"):
        return not (nk[0] == "comment" or (nk[0] == "text" and nk[1]))
    if name == "thead":
        return fb(("tbody", "tfoot"))
    if name == "tbody":
        return fb(("tbody", "tfoot")) or no_more
    if name == "tfoot":
        return no_more
    if name == "tr":
        return fb(("tr",)) or no_more
    if name in ("td", "th"):
        return fb(("td", "th")) or no_more
    return False


def window_deviation(prev, cur, nxt):
    kind, name = cur
    if kind == "E" and name == "p" and nxt is not None and nxt[0] == "E" and (nxt[1] in P_PARENT_EXCLUDED or "-" in nxt[1]):
        return "p-end-parent-not-checked"
    if kind == "E" and name == "p" and nxt is not None and nxt[0] in ("S", "Sa", "V") and nxt[1] in ("datagrid", "dialog", "dir"):
        return "p-end-before-obsolete-follower"
    if kind == "S" and name == "body" and nxt is not None and nxt[0] in ("S", "Sa", "V") and nxt[1] in ("meta", "link", "template"):
        return "body-start-before-meta-link"
    if kind == "E" and name == "tfoot" and nxt is not None and nxt[0] in ("S", "Sa") and nxt[1] == "tbody":
        return "tfoot-end-before-tbody"
    return None


def judge_window(ctx, prev, cur, nxt):
    from html5lib.filters import optionaltags
    toks = [mk(x) for x in (prev, cur, nxt) if x is not None]
    case = {"window": [prev, cur, nxt]}
    ctx.case(["w", prev, cur, nxt], nontrivial=cur[0] in ("S", "E", "Sa"))
    ctx.count("windows")
    r = judge_stream(ctx, case, toks, "window", contextual=False)
    if r is None:
        return
    removed, _ = r
    ci = 1 if prev is not None else 0
    if ci in removed:
        ok = window_allowed(prev, cur, nxt)
        if ok is None:
            ctx.count("windows_not_decidable")
        elif ok:
            ctx.count("window_removals_allowed_by_R_omit")
        else:
            key = window_deviation(prev, cur, nxt)
            if key:
                ctx.known_finding(key, case, "window %r: %s removed where the syntax does not allow it" % ([prev, cur, nxt], cur))
            else:
                ctx.violation("omitted-where-not-allowed:window:%s-%s" % ("start" if cur[0] != "E" else "end", cur[1]), case,
                              "window %r: the tag is removed but the omission rules do not allow it here" % ([prev, cur, nxt],))


def serialize(tokens):
    from html5lib import serializer
    return serializer.HTMLSerializer(omit_optional_tags=False, quote_attr_values="always").render(tokens)


def judge_conforming(ctx, rng):
    from .. import h5
    doc, markup, want, got, p = conform.accept(rng, 3)
    if doc is None:
        ctx.count("generator_rejects")
        return
    ctx.count("conforming_documents")
    case = {"conforming_markup": markup}
    for kind in ("etree", "dom"):
        flat, pp, tree = h5.parse_doc(markup, kind="etree-full" if kind == "etree" else "dom")
        tokens = list(h5.walker(kind)(tree))
        r = judge_stream(ctx, case, tokens, kind + "-conforming")
        if r is None:
            continue
        removed, devs = r
        ctx.case(["conf", markup, kind], nontrivial=bool(removed))
        if len(markup) % 3 == 0:
            # the serializer's omit_optional_tags option is this filter applied LAST: after the filters that turn tags into
            # text (sanitize) or collapse text (strip_whitespace); otherwise the omission decisions are taken on a stream
            # that is not the one written out
            import warnings
            from html5lib import serializer as _ser
            from html5lib.filters import optionaltags as _ot, sanitizer as _sa
            try:
                with warnings.catch_warnings():
                    warnings.simplefilter("ignore")
                    a = _ser.HTMLSerializer(omit_optional_tags=True, sanitize=True).render(streams.copy_tokens(tokens))
                    b = _ser.HTMLSerializer(omit_optional_tags=False).render(_ot.Filter(_sa.Filter(streams.copy_tokens(tokens))))
                ctx.count("serializer_option_compared_with_filter")
                if a != b:
                    ctx.violation("serializer-option-differs-from-filter-applied-last", case,
                                  "%s walker: omit_optional_tags+sanitize gives %r, sanitizer then this filter gives %r" % (kind, a[:200], b[:200]))
                    continue
            except Exception:
                ctx.count("serializer_raised_in_wiring_clause")
        base = h5.parse_doc(serialize(streams.copy_tokens(tokens)))[0]
        filt = [t for i, t in enumerate(tokens) if i not in removed]
        got2 = h5.parse_doc(serialize(streams.copy_tokens(filt)))[0]
        ctx.count("parse_equivalence_checked")
        if base != flat:
            # the unfiltered serialisation already fails to reproduce the document (C07/C08's subject, e.g. raw
            # text of an svg <style>): the omission clause cannot be judged on top of that
            ctx.count("unfiltered_roundtrip_differs_skipped")
            continue
        if got2 != base:
            # explanatory normaliser: put back exactly the removals that the listed findings account for
            filt2 = [t for i, t in enumerate(tokens) if i not in removed or i in devs]
            if devs and h5.parse_doc(serialize(streams.copy_tokens(filt2)))[0] == base:
                ctx.count("parse_differences_explained_by_listed_findings")
            else:
                ctx.violation("filtered-stream-parses-differently", case,
                              "%s: %s" % (kind, canon.diff_text(base, got2, "unfiltered", "filtered")))


def run_case(ctx, case):
    from .. import h5
    if "window" in case:
        w = [tuple(x) if x is not None else None for x in case["window"]]
        judge_window(ctx, *w)
        return
    if "conforming_markup" in case:
        markup = case["conforming_markup"]
        for kind in ("etree", "dom"):
            flat, pp, tree = h5.parse_doc(markup, kind="etree-full" if kind == "etree" else "dom")
            tokens = list(h5.walker(kind)(tree))
            r = judge_stream(ctx, case, tokens, kind + "-conforming")
            if r is None:
                continue
            removed, devs = r
            base = h5.parse_doc(serialize(streams.copy_tokens(tokens)))[0]
            got2 = h5.parse_doc(serialize(streams.copy_tokens([t for i, t in enumerate(tokens) if i not in removed])))[0]
            if base != flat:
                continue
            if got2 != base:
                filt2 = [t for i, t in enumerate(tokens) if i not in removed or i in devs]
                if not (devs and h5.parse_doc(serialize(streams.copy_tokens(filt2)))[0] == base):
                    ctx.violation("filtered-stream-parses-differently", case, canon.diff_text(base, got2, "unfiltered", "filtered"))
        return
    data = case["input"]
    for kind in ("etree", "dom"):
        try:
            if case.get("frag"):
                flat, p, tree = h5.parse_frag(data, container=case["container"], kind=kind)
            else:
                flat, p, tree = h5.parse_doc(data, kind="etree-full" if kind == "etree" else "dom")
            tokens = list(h5.walker(kind)(tree))
        except Exception:
            ctx.count("parse_or_walk_raised")
            continue
        if any(t["type"] == "SerializeError" for t in tokens):
            ctx.count("streams_with_serialize_error_skipped")
            continue
        r = judge_stream(ctx, case, tokens, kind + "-walker")
        if r is not None:
            ctx.case(["s", data, kind, case.get("container")], nontrivial=bool(r[0]))


SEEDS = ["<head></head> <body><script>x</script>y", "<head></head><!--c--><body><style>x</style>y", "<head></head>\n<body><script></script>",
         "<head></head><body><script>x</script>", "<head></head> <body><p>x", "<select><optgroup label=a><option>1</option></optgroup><option>2</option></select>",
         "<ruby>a<rt>b</rt>c<rp>d</rp>e</ruby>", "<dl><dt>a</dt>x<dd>b</dd>y</dl>", "<table><thead><tr><td>a</thead>x<tbody><tr><td>b</table>",
         "<m>x</m><h>y</h><t>z</t><l>w</l><ht>a</ht><tm>b</tm><ml>c</ml><htm>d</htm><tml>e</tml>",
         "<a><p>x</p></a>", "<body><link><meta>", "<body><template>x</template>", "<p>x</p><dialog>y</dialog>",
         "<p>x</p><dir>y</dir>", "<table><tfoot><tr><td>x</tfoot><tbody><tr><td>y</table>", "<svg><td>x</td></svg>",
         "<math><p>x</p>", "<svg><foreignObject><p>x</p></foreignObject></svg>", "<x-y><p>x</p></x-y>",
         "<ins><p>x</p></ins><del><p>y</p></del><map><p>z</p></map><video><p>w</p></video>",
         "<table><colgroup><col></colgroup><colgroup><col></colgroup><thead><tr><th>x</thead><tbody><tr><td>y</tbody><tbody><tr><td>z</table>",
         "<ul><li>a</li><li>b</li></ul><dl><dt>a<dd>b</dl><select><optgroup><option>a<option>b</optgroup></select><ruby>a<rt>b<rp>c</ruby>",
         "<!--c--><html><!--c--><head><!--c--></head><!--c--><body><!--c--></body><!--c--></html><!--c-->",
         "<html> <head> </head> <body> </body> </html> ", "<head></head><body></body>", "<body><script>x</script>", "<body> x"]


def shard(ctx):
    k = 0
    for s in SEEDS:
        for frag, cont in ((False, None), (True, "div")):
            k += 1
            if ctx.mine(k):
                run_case(ctx, {"input": s, "frag": frag, "container": cont})
    # (b) all windows (complete)
    wt = window_tokens()
    curs = [w for w in wt if w is not None and w[0] in ("S", "E", "Sa")]
    k = 0
    for cur in curs:
        k += 1
        if not ctx.mine(k):
            continue
        for prev in wt:
            for nxt in wt:
                judge_window(ctx, prev, cur, nxt)
    if ctx.i == 0:
        ctx.sample({"window": [["E", "thead"], ["S", "tbody"], ["S", "tr"]]})
    # every short token sequence, parsed, walked and filtered (bounded-exhaustive)
    for q in gen.token_sequences(ctx, 3, 3, 0.4):
        run_case(ctx, {"input": q, "frag": False, "container": None})
        ctx.count("sequence_cases")
    # (a) + (c)
    n, idx = 0, ctx.i
    limit = (24000 if ctx.tier == "quick" else 1500000) // ctx.n
    t_end = time.time() + ctx.time_left()
    while n < limit and time.time() < t_end:
        rng = ctx.rng("rand", idx)
        idx += ctx.n
        n += 1
        if rng.random() < 0.4:
            judge_conforming(ctx, rng)
        else:
            data = gen.nesting(rng) if rng.random() < 0.5 else gen.soup(rng, 25)
            frag = rng.random() < 0.3
            case = {"input": data, "frag": frag, "container": rng.choice(gen.CONTEXTS) if frag else None}
            run_case(ctx, case)
            if n <= 2 and ctx.i == 0:
                ctx.sample(case)


def replay(ctx, case):
    run_case(ctx, case)


def finalize(m, v):
    from .. import gen as _gen
    _gen.sequences_inconclusive(m)
    c = m["counters"]
    nw = len(window_tokens())
    ncur = len([w for w in window_tokens() if w is not None and w[0] in ("S", "E", "Sa")])
    if c.get("windows", 0) != ncur * nw * nw:
        m["inconclusive"].append("window enumeration incomplete: %d of %d" % (c.get("windows", 0), ncur * nw * nw))
    if c.get("parse_equivalence_checked", 0) < 1000:
        m["inconclusive"].append("fewer than 1000 parse-equivalence checks on conforming documents")
    if c.get("removals_allowed_by_R_omit", 0) < 5000:
        m["inconclusive"].append("R-omit judged fewer than 5000 removals")
    cd, rej = c.get("conforming_documents", 0), c.get("generator_rejects", 0)
    if cd + rej and rej > 0.2 * (cd + rej):
        m["inconclusive"].append("conforming generator reject rate above 20%%: %d of %d" % (rej, cd + rej))
    return {"windows_complete": c.get("windows", 0) == ncur * nw * nw, "window_vocabulary": VOCAB}
