"""C02 - tokenizer output equals the WHATWG tokenization (differential monitor against R-tok)."""
import time

from .. import gen
from ..ref import rtok
from ..common import short

LEVEL = "exploration"
TECHNIQUE = ("runtime monitoring: differential monitor of the real tokenizer's token stream against an independent "
             "WHATWG tokenizer model (R-tok); directed (state-driving prefix x next character x suffix) walk of the "
             "transition relation, multi-character look-ahead corruptions, and soup x start state x last-start-tag x CDATA flag")
LEVEL_TEXT = ("Held on the executions produced: for every generated (input, start state, last start tag, CDATA flag) the "
              "normalised token list of html5lib's tokenizer equalled R-tok's. The transition walk visits every state-driving "
              "prefix x a 150-symbol alphabet x 6 suffixes (depth 1 in quick, symbol pairs in thorough); state methods "
              "entered are recorded by wrappers and a run that misses one is inconclusive. Exploration; exhaustive only at "
              "the stated depth for the listed prefixes.")
BUDGET_S = {"quick": 50, "thorough": 900}
RULE = ("cases = (input, start state in {data, RCDATA, RAWTEXT, script data, PLAINTEXT}, last start tag, CDATA allowed); "
        "tokens are normalised as the property states (parse errors dropped, adjacent character tokens concatenated, "
        "doctype (name, public, system, force-quirks), tags (name, ordered attributes first-duplicate-wins, self-closing; "
        "end tags by name), comments). distinct_nontrivial = distinct cases whose model token list has at least one "
        "non-character token or a character reference.")
ASSUMPTIONS = [
    "R-tok is written from the 2020 text of the standard (DESIGN Appendix A); its agreement with html5lib on >10^5 directed cases is itself evidence for both",
    "end tags are compared by name only (attributes and self-closing flag on end tags are parse errors without effect)",
    "a missing doctype name is compared as the empty string",
]

STATES = ["data", "rcdata", "rawtext", "script", "plaintext"]
H5STATE = {"data": "dataState", "rcdata": "rcdataState", "rawtext": "rawtextState", "script": "scriptDataState",
           "plaintext": "plaintextState"}
_entered = set()
_installed = [False]


def install():
    if _installed[0]:
        return
    _installed[0] = True
    from html5lib import _tokenizer
    T = _tokenizer.HTMLTokenizer
    for nm in dir(T):
        if nm.endswith("State") and callable(getattr(T, nm)):
            def mk(nm, orig):
                def w(self):
                    _entered.add(nm)
                    return orig(self)
                w.__name__ = nm
                return w
            setattr(T, nm, mk(nm, getattr(T, nm)))


class _StubNode(object):
    def __init__(self, ns):
        self.namespace = ns


class _StubTree(object):
    def __init__(self, foreign):
        self.defaultNamespace = "http://www.w3.org/1999/xhtml"
        self.openElements = [_StubNode("http://www.w3.org/2000/svg" if foreign else self.defaultNamespace)]


class _StubParser(object):
    def __init__(self, foreign):
        self.tree = _StubTree(foreign)


def h5_tokens(text, state, last, cdata, chunk=None):
    from html5lib import _tokenizer, constants, _inputstream
    if chunk:
        U = _inputstream.HTMLUnicodeInputStream
        old = U._defaultChunkSize
        U._defaultChunkSize = chunk
        try:
            return h5_tokens(text, state, last, cdata)
        finally:
            U._defaultChunkSize = old
    tt = constants.tokenTypes
    names = {v: k for k, v in tt.items()}
    tok = _tokenizer.HTMLTokenizer(text, parser=_StubParser(cdata))
    tok.state = getattr(tok, H5STATE[state])
    if last is not None:
        tok.currentToken = {"type": tt["StartTag"], "name": last, "data": [], "selfClosing": False}
    out = []
    emitted, cap = 0, 6 * len(text) + 64
    for t in tok:
        ty = names[t["type"]]
        emitted += 1
        if emitted > cap:
            # no state emits more than a few tokens per input character: the machine is not consuming input any more
            out.append(("tokenizer-does-not-stop", emitted))
            break
        if ty == "ParseError":
            continue
        if ty in ("Characters", "SpaceCharacters"):
            if out and out[-1][0] == "chars":
                out[-1] = ("chars", out[-1][1] + t["data"])
            else:
                out.append(("chars", t["data"]))
        elif ty == "StartTag":
            d = t["data"]
            items = tuple((k, v) for k, v in (d.items() if hasattr(d, "items") else d))
            out.append(("start", t["name"], items, bool(t["selfClosing"])))
        elif ty == "EndTag":
            # the standard's end tag token has attributes (first duplicate wins) and a self-closing flag as well
            seen, items = set(), []
            d = t["data"]
            for k, v in (d.items() if hasattr(d, "items") else d):
                if k not in seen:
                    seen.add(k)
                    items.append((k, v))
            out.append(("end", t["name"], tuple(items), bool(t["selfClosing"])))
        elif ty == "Comment":
            out.append(("comment", t["data"]))
        elif ty == "Doctype":
            out.append(("doctype", t["name"] or "", t["publicId"], t["systemId"], not t["correct"]))
        else:
            out.append((ty, repr(t)))
    return out


def judge(ctx, text, state="data", last=None, cdata=False, fam="?"):
    install()
    case = {"input": text, "state": state, "last_start_tag": last, "cdata": cdata}
    exp = rtok.tokenize(text, state, last, cdata, end_details=True)
    chunk = None
    if fam in ("soup", "lookahead") and (len(text) % 3 == 0):
        chunk = 1 + (len(text) * 7 + len(state)) % 9   # deterministic small chunk size 1..9
        ctx.count("runs_with_small_chunks")
        case["chunk"] = chunk
    try:
        got = h5_tokens(text, state, last, cdata, chunk)
    except Exception as e:
        ctx.case([text, state, last, cdata], True)
        ctx.violation("tokenizer-raised:" + type(e).__name__, case, "%s: %s" % (type(e).__name__, short(str(e), 200)))
        return
    nontrivial = any(t[0] != "chars" for t in exp) or "&" in text
    ctx.case([text, state, last, cdata], nontrivial=nontrivial)
    ctx.count("runs:" + fam)
    if got != exp and cdata and "\x00" in text and got == rtok.tokenize(text, state, last, cdata, ("cdata-nul-replaced-by-tokenizer",), end_details=True):
        ctx.known_finding("cdata-nul-replaced-by-tokenizer", case, "NUL inside a CDATA section is emitted as U+FFFD by the tokenizer (the standard passes U+0000 on to tree construction)")
        return
    if got != exp:
        i = next((i for i in range(min(len(got), len(exp))) if got[i] != exp[i]), min(len(got), len(exp)))
        kind = (exp[i][0] if i < len(exp) else "extra") + "/" + (got[i][0] if i < len(got) else "missing")
        ctx.violation("tokens-differ:%s:%s" % (state, kind), case,
                      "token %d: standard %r, html5lib %r" % (i, exp[i:i + 2], got[i:i + 2]))


# state-driving prefixes: (start state, last start tag, prefix) -- each leaves the tokenizer in (or just before) a state
PREFIXES = [
    ("data", None, ""), ("data", None, "a"), ("data", None, "&"), ("data", None, "&#"), ("data", None, "&#x"), ("data", None, "&#1"),
    ("data", None, "&#x1"), ("data", None, "&a"), ("data", None, "&am"), ("data", None, "&amp"), ("data", None, "&not"), ("data", None, "&noti"),
    ("data", None, "<"), ("data", None, "</"), ("data", None, "<a"), ("data", None, "</a"), ("data", None, "<a "), ("data", None, "<a b"),
    ("data", None, "<a b "), ("data", None, "<a b="), ("data", None, "<a b= "), ("data", None, "<a b=\""), ("data", None, "<a b='"), ("data", None, "<a b=c"),
    ("data", None, "<a b=\"c\""), ("data", None, "<a b='c'"), ("data", None, "<a/"), ("data", None, "<a b/"), ("data", None, "<a b=c/"), ("data", None, "<a b=\"&"),
    ("data", None, "<a b='&a"), ("data", None, "<a b=&amp"), ("data", None, "<a b=\"&#"), ("data", None, "<a b c"), ("data", None, "<a b=c d=e b"), ("data", None, "<a b b"),
    ("data", None, "<?"), ("data", None, "<!"), ("data", None, "<!-"), ("data", None, "<!--"), ("data", None, "<!---"), ("data", None, "<!--a"), ("data", None, "<!--a-"),
    ("data", None, "<!--a--"), ("data", None, "<!--a--!"), ("data", None, "<!--<"), ("data", None, "<!--<!"), ("data", None, "<!--<!-"), ("data", None, "<!--<!--"),
    ("data", None, "<!D"), ("data", None, "<!DOCTYP"), ("data", None, "<!DOCTYPE"), ("data", None, "<!DOCTYPE "), ("data", None, "<!DOCTYPE h"), ("data", None, "<!DOCTYPE h "),
    ("data", None, "<!DOCTYPE h P"), ("data", None, "<!DOCTYPE h PUBLI"), ("data", None, "<!DOCTYPE h PUBLIC"), ("data", None, "<!DOCTYPE h PUBLIC "), ("data", None, "<!DOCTYPE h PUBLIC \""),
    ("data", None, "<!DOCTYPE h PUBLIC '"), ("data", None, "<!DOCTYPE h PUBLIC \"a\""), ("data", None, "<!DOCTYPE h PUBLIC \"a\" "), ("data", None, "<!DOCTYPE h PUBLIC \"a\" \""),
    ("data", None, "<!DOCTYPE h PUBLIC \"a\" '"), ("data", None, "<!DOCTYPE h PUBLIC \"a\" \"b\""), ("data", None, "<!DOCTYPE h SYSTE"), ("data", None, "<!DOCTYPE h SYSTEM"),
    ("data", None, "<!DOCTYPE h SYSTEM "), ("data", None, "<!DOCTYPE h SYSTEM \""), ("data", None, "<!DOCTYPE h SYSTEM '"), ("data", None, "<!DOCTYPE h SYSTEM 'b'"), ("data", None, "<!DOCTYPE h x"),
    ("data", None, "<![CDATA["), ("data", None, "<![CDAT"), ("data", "cdata", "<![CDATA["), ("data", "cdata", "<![CDATA[a"), ("data", "cdata", "<![CDATA[]"), ("data", "cdata", "<![CDATA[]]"),
    ("rcdata", "title", ""), ("rcdata", "title", "<"), ("rcdata", "title", "</"), ("rcdata", "title", "</t"), ("rcdata", "title", "</title"), ("rcdata", "title", "</titlex"), ("rcdata", "title", "&am"),
    ("rcdata", None, "</title"), ("rcdata", "textarea", "</title"), ("rawtext", "style", ""), ("rawtext", "style", "<"), ("rawtext", "style", "</"), ("rawtext", "style", "</styl"), ("rawtext", "style", "</style"),
    ("rawtext", "xmp", "</style"), ("plaintext", "plaintext", ""), ("plaintext", "plaintext", "</plaintext"),
    ("script", "script", ""), ("script", "script", "<"), ("script", "script", "</"), ("script", "script", "</scrip"), ("script", "script", "</script"), ("script", "script", "<!"), ("script", "script", "<!-"),
    ("script", "script", "<!--"), ("script", "script", "<!--a"), ("script", "script", "<!--a-"), ("script", "script", "<!--a--"), ("script", "script", "<!--<"), ("script", "script", "<!--</"),
    ("script", "script", "<!--</scrip"), ("script", "script", "<!--</script"), ("script", "script", "<!--<s"), ("script", "script", "<!--<scrip"), ("script", "script", "<!--<script"),
    ("script", "script", "<!--<script "), ("script", "script", "<!--<script -"), ("script", "script", "<!--<script --"), ("script", "script", "<!--<script <"), ("script", "script", "<!--<script </"),
    ("script", "script", "<!--<script </scrip"), ("script", "script", "<!--<script </script"), ("script", "script", "<!--<scripx"), ("script", "ſcript", "</script"), ("script", "script", "</ſcript"), ("rcdata", "a\u212a", "</ak"), ("rawtext", "t\u0130tle", "</title"),
    ("rawtext", "t\u0130tle", "</ti\u0307tle"), ("script", "a\u212a", "</ak"), ("script", "a\u212a", "<!--</ak"),
    # ASCII case-insensitivity of the names the tokenizer compares itself (temporary buffer, appropriate end tag)
    ("script", "script", "<!--<SCRIPT"), ("script", "script", "<!--<ScRiP"), ("script", "script", "<!--<script </SCRIPT"), ("script", "script", "<!--<SCRIPT </ScRiPt"),
    ("script", "script", "<!--<sCRIPT>x</SCRIP"), ("script", "script", "</SCRIPT"), ("script", "script", "<!--</SCRIPT"), ("rcdata", "title", "</TITLE"), ("rcdata", "title", "</TiTl"),
    ("rawtext", "style", "</STYLE"), ("rcdata", "textarea", "</TextAre"),
]

ALPHABET = [chr(c) for c in range(128)] + ["", "\x80", "Å", "İ", "K", "�", "﷐", "￾", "\U0001F600", "\U0010FFFF", "\ud800", "\udfff",
                                           "\r", "\r\n", "ſ", "é", "　", "\x85", "\xa0", "－", "＞", "＜"]
SUFFIXES = ["", ">", " x>", "\"'>", "-->", "a=b>c</title></script>", "></script>x--></script>y"]


SEQ_SYMBOLS = ["<", ">", "/", "!", "-", "?", "a", "A", " ", "=", "\"", "'", "&", ";", "#", "x", "0", "]", "[", "\x00", "\n", "`",
               "<!DOCTYPE", "PUBLIC", "SYSTEM", "<!--", "<![CDATA[", "]]>", "</script", "<script", "</title", "amp", "not", "html"]
SEQ_LEN = {"quick": 3, "thorough": 4}
SEQ_STATES = [("data", None, False), ("data", None, True), ("rcdata", "title", False), ("rawtext", "style", False), ("script", "script", False),
              ("plaintext", None, False)]


def charref_family():
    import html.entities
    edges = set()
    for v in (0, 1, 8, 9, 0xA, 0xB, 0xC, 0xD, 0xE, 0x1F, 0x20, 0x7E, 0x7F, 0x80, 0x9F, 0xA0, 0xD7FF, 0xD800, 0xDBFF, 0xDC00, 0xDFFE, 0xDFFF, 0xE000,
              0xFDCF, 0xFDD0, 0xFDEF, 0xFDF0, 0xFFFD, 0xFFFE, 0xFFFF, 0x10000, 0x1FFFE, 0x1FFFF, 0x20000, 0x10FFFE, 0x10FFFF, 0x110000, 0x7FFFFFFF):
        edges.add(v)
    for v in range(0x80, 0xA0):
        edges.add(v)
    for v in sorted(edges):
        for form in ("&#x%X;", "&#x%x", "&#X%x;", "&#%d;", "&#%d", "&#0000000%d;", "&#x0000000%x;"):
            yield form % v
            yield form % v + "z"
    names = html.entities.html5
    legacy = sorted(n for n in names if not n.endswith(";"))
    full = sorted(names)
    for e in legacy:
        for L in full:
            if L.startswith(e) and len(L) > len(e) + 1:
                for cut in range(len(e) + 1, min(len(L), len(e) + 3)):
                    for end in ("", " ", "=", "&", "1", ";"):
                        yield "&" + L[:cut] + end


def shard(ctx):
    install()
    k = 0
    for (st, last, pre) in PREFIXES:
        cd = last == "cdata"
        lst = None if cd else last
        for c in ALPHABET:
            k += 1
            if not ctx.mine(k):
                continue
            for suf in SUFFIXES:
                judge(ctx, pre + c + suf, st, lst, cd, "walk1")
            if ctx.tier == "thorough":
                for c2 in ALPHABET:
                    judge(ctx, pre + c + c2 + ">", st, lst, cd, "walk2")
                    judge(ctx, pre + c + c2, st, lst, cd, "walk2")
    # multi-character look-aheads: every prefix and every one-character corruption
    looks = ["<!DOCTYPE html>", "<!doctype html PUBLIC \"a\" \"b\">", "<!DoCtYpE html SyStEm 'x'>", "<!--x-->", "<![CDATA[x]]>", "<script><!--<script>x</script>--></script>",
             "</title>", "</TiTlE>", "</title/>", "</title >", "</title x=y>", "&notit;", "&amp;", "&#x41;", "&#65;", "<!DOCTYPE html PUBLIC 'a''b'>", "<!DOCTYPE html SYSTEM\"b\">"]
    for L in looks:
        for cut in range(len(L) + 1):
            k += 1
            if not ctx.mine(k):
                continue
            for st, last in (("data", None), ("rcdata", "title"), ("script", "script"), ("data", "cdata")):
                cd = last == "cdata"
                judge(ctx, L[:cut], st, None if cd else last, cd, "lookahead")
                judge(ctx, L[:cut] + "x", st, None if cd else last, cd, "lookahead")
                for sub in ("x", "\x00", "K", "İ", " ", ">", "-", "]"):
                    if cut < len(L):
                        judge(ctx, L[:cut] + sub + L[cut + 1:], st, None if cd else last, cd, "lookahead")
    # character references: every numeric range edge of the standard, and every semicolon-less legacy name followed by
    # letters that still spell the start of a longer name (the match must be judged at the character after the NAME)
    for text in charref_family():
        k += 1
        if not ctx.mine(k):
            continue
        judge(ctx, text, "data", None, False, "charref")
        judge(ctx, text, "rcdata", "title", False, "charref")
        for q in ('"', "'", ""):
            judge(ctx, "<p a=%s%s%s>" % (q, text, q), "data", None, False, "charref")
    # bounded-exhaustive: EVERY string of up to SEQ_LEN symbols over SEQ_SYMBOLS, in every start-state configuration
    total, it = gen.all_sequences(SEQ_SYMBOLS, SEQ_LEN[ctx.tier], ctx.i, ctx.n)
    t_seq = time.time() + ctx.time_left() * 0.6
    cut = False
    for qi, text in enumerate(it):
        for st, last, cd in SEQ_STATES:
            judge(ctx, text, st, last, cd, "sequence")
        if qi % 256 == 0 and time.time() > t_seq:
            cut = True
            break
    ctx.count("sequence_shards_cut_short" if cut else "sequence_shards_completed")
    # soup x start states x last start tags x CDATA flag
    n, idx = 0, ctx.i
    limit = (60000 if ctx.tier == "quick" else 3000000) // ctx.n
    t_end = time.time() + ctx.time_left()
    lasts = [None, "title", "textarea", "style", "script", "xmp", "plaintext", "foo", "ſcript", "a\u212a", "t\u0130tle"]
    while n < limit and time.time() < t_end:
        rng = ctx.rng("soup", idx)
        idx += ctx.n
        n += 1
        text = gen.soup(rng, 20) if rng.random() < 0.8 else gen.random_text(rng, rng.randint(1, 60))
        st = rng.choice(STATES)
        judge(ctx, text, st, rng.choice(lasts), rng.random() < 0.3, "soup")
        if n <= 3 and ctx.i == 0:
            ctx.sample({"input": short(text, 200), "state": st})
    for nm in _entered:
        ctx.add("h5_states_entered", nm)


def replay(ctx, case):
    judge(ctx, case["input"], case["state"], case["last_start_tag"], case["cdata"], "soup" if case.get("chunk") else "replay")


def finalize(m, v):
    from .. import common
    common.import_repo()
    from html5lib import _tokenizer
    T = _tokenizer.HTMLTokenizer
    allst = sorted(nm for nm in dir(T) if nm.endswith("State") and callable(getattr(T, nm)))
    seen = m["sets"].get("h5_states_entered", set())
    missing = [s for s in allst if s not in seen]
    if missing:
        m["inconclusive"].append("tokenizer state methods never entered: %s" % ", ".join(missing))
    if m["counters"].get("runs:walk1", 0) < len(PREFIXES) * len(ALPHABET) * len(SUFFIXES):
        m["inconclusive"].append("transition walk incomplete")
    if m["counters"].get("sequence_shards_cut_short", 0):
        m["inconclusive"].append("the bounded-exhaustive symbol-sequence family was cut short by the time budget")
    return {"bounded_exhaustive_family": {"what": "every string of 1..L symbols over SEQ_SYMBOLS x 6 start-state configurations",
                                          "symbols": len(SEQ_SYMBOLS), "runs": m["counters"].get("runs:sequence", 0),
                                          "complete": not m["counters"].get("sequence_shards_cut_short", 0)},
            "h5_state_methods": len(allst), "h5_state_methods_entered": len(seen), "prefixes": len(PREFIXES), "alphabet": len(ALPHABET)}
