"""C15 - encoded serializations declare their encoding and decode to the same tree."""
import codecs
import time

from .. import canon
from ..ref import prescan as PS
from ..common import short

LEVEL = "exploration"
TECHNIQUE = ("runtime monitoring end to end: render(tree, encoding) -> bytes must decode strictly, declare the encoding in a "
             "<meta> inside head, be sniffed back to that encoding by a hint-free parse, and give the same tree as the "
             "unencoded serialization up to the declaration")
LEVEL_TEXT = ("Held on the executions produced: for every generated document (heads with zero, one or several charset / "
              "http-equiv declarations at any position, long content before the declaration, declarations in body, text "
              "and attributes inside and outside the encoding's repertoire) x every sampled encoding label x omission "
              "on/off x both walkers, the four clauses held, listed findings excepted. Exploration.")
BUDGET_S = {"quick": 50, "thorough": 900}
RULE = ("cases = (document markup, output encoding label, omit_optional_tags, walker); labels = names that are both a Python "
        "codec and a webencodings label. distinct_nontrivial = distinct cases whose document contains at least one "
        "character outside ASCII or at least one pre-existing declaration.")
ASSUMPTIONS = [
    "supported output encoding = a label known to both Python's codecs and webencodings; characters the Python codec itself does not round-trip (shift_jis U+00A5/U+203E) are not used",
    "script/style text is kept inside the encoding's repertoire here (their character-reference problem is C07/C08's finding)",
    "'declares' = charset attribute or http-equiv=content-type + content whose extracted label resolves to the same encoding",
]

_LABELS = None


def labels():
    global _LABELS
    if _LABELS is None:
        import webencodings
        out = []
        for lab in sorted(set(webencodings.LABELS)):
            try:
                codecs.lookup(lab)
            except LookupError:
                continue
            try:
                "a".encode(lab)
            except Exception:
                continue
            out.append(lab)
        _LABELS = out
    return _LABELS


def canon_name(lab):
    import webencodings
    return webencodings.lookup(lab).name


TEXTS = ["\xc9cole", "\xc1RBOL \xd6l=1", "?q=\xc7a", "plain", "caf\xe9", "привет", "あい", "€", "\U0001F600", "中文", "na\xefve — dash", "a&b<c>d\"e'f",
         "\xa0nbsp", "กข", "אב", "ΑΒ", "ąę", "x" * 30]


def gen_doc(rng):
    def txt():
        return " ".join(rng.choice(TEXTS) for _ in range(rng.randint(1, 3)))

    def esc(s):
        return s.replace("&", "&amp;").replace("<", "&lt;").replace('"', "&quot;")
    head = []
    decl = 0
    layout = rng.choice(["none", "none", "title", "charset", "pragma", "two", "after-long-title", "after-long-comment", "mixed", "uppercase", "in-body-only",
                         "pragma-after-long-title", "pragma-after-long-comment", "pragma-lower-after-long-title", "both-pragma-first", "both-charset-first"])
    old = rng.choice(["utf-8", "koi8-r", "iso-8859-1", "shift_jis", "windows-1251", "bogus", "utf-16", ""])
    if layout in ("title", "mixed", "two"):
        head.append("<title>%s</title>" % esc(txt()))
    if layout == "after-long-title":
        head.append("<title>%s</title>" % esc((rng.choice(TEXTS[1:6]) + " ") * 300))
    if layout == "after-long-comment":
        head.append("<!--%s-->" % ("c" * 1100))
    if layout in ("pragma-after-long-title", "pragma-lower-after-long-title"):
        head.append("<title>%s</title>" % esc((rng.choice(TEXTS[4:9]) + " ") * 300))
    if layout == "pragma-after-long-comment":
        head.append("<!--%s-->" % ("c" * 1100))
    if layout in ("pragma-after-long-title", "pragma-after-long-comment"):
        head.append("<meta http-equiv=\"Content-Type\" content=\"text/html; charset=%s\">" % old)
        decl += 1
    if layout == "pragma-lower-after-long-title":
        head.append("<meta content=\"text/html;charset=%s\" http-equiv=\"content-type\">" % old)
        decl += 1
    if layout in ("charset", "two", "after-long-title", "after-long-comment", "mixed"):
        head.append("<meta charset=\"%s\">" % old)
        decl += 1
    if layout in ("pragma", "two", "mixed"):
        head.append("<meta http-equiv=\"Content-Type\" content=\"text/html; charset=%s\">" % old)
        decl += 1
    if layout == "both-pragma-first":
        # one meta carrying both forms: the charset attribute is the one that counts, whatever the attribute order
        head.append("<meta http-equiv=\"Content-Type\" content=\"text/html; charset=%s\" charset=\"%s\">" % (old, old))
        decl += 1
    if layout == "both-charset-first":
        head.append("<meta charset=\"%s\" content=\"text/html; charset=%s\" http-equiv=\"Content-Type\">" % (old, old))
        decl += 1
    if layout == "uppercase":
        head.append("<META CHARSET=\"%s\" NAME=x>" % old.upper())
        decl += 1
    if rng.random() < 0.15:
        # raw text that looks like a declaration for another encoding, in front of the real one: the prescan may take it,
        # tree construction must correct it
        head.insert(0, rng.choice(["<script>document.write('<meta charset=koi8-r>')</script>", "<style>/* <meta charset=\"shift_jis\"> */</style>",
                                   "<script>var m = \"<meta http-equiv='content-type' content='text/html; charset=big5'>\";</script>",
                                   "<title>&lt;meta charset=koi8-r&gt;</title>", "<!-- <meta charset=koi8-r> -->"]))
    if rng.random() < 0.12:
        # metas that merely mention content-type, or a pragma without content: none of them is a declaration, all must stay as they are
        head.append(rng.choice(["<meta name=\"content-type\" content=\"text/plain; charset=koi8-r\">", "<meta property=\"Content-Type\" content=\"x\">",
                                "<meta http-equiv=\"content-type\">", "<meta http-equiv=\"Content-Type\" name=\"x\">", "<meta itemprop=\"content-type\" content=\"charset=big5\">"]))
    if rng.random() < 0.15:
        head.append(rng.choice(["<meta http-equiv=\"refresh\" content=\"30; url=x\">", "<meta content=\"IE=edge\" http-equiv=\"X-UA-Compatible\">",
                                "<meta http-equiv=\"default-style\" content=\"a\">", "<meta http-equiv=\"content-language\" content=\"charset=koi8-r\">"]))
    if layout == "mixed":
        head.append("<meta name=\"description\" content=\"%s\">" % esc(txt()))
        head.append("<link rel=\"stylesheet\" href=\"x.css\"><style>p{}</style><script>var a=1;</script>")
    if rng.random() < 0.3:
        rng.shuffle(head)
    body = []
    if layout == "in-body-only" or rng.random() < 0.1:
        body.append("<meta charset=\"%s\">" % old)
        decl += 1
    for _ in range(rng.randint(1, 4)):
        r = rng.random()
        if r < 0.5:
            body.append("<p title=\"%s\">%s</p>" % (esc(txt()), esc(txt())))
        elif r < 0.7:
            body.append("<div><a href=\"%s\">%s</a><br><img alt=\"%s\"></div>" % (esc(txt()), esc(txt()), esc(txt())))
        elif r < 0.85:
            body.append("<table><tr><td>%s<td>%s</table>" % (esc(txt()), esc(txt())))
        else:
            body.append("<textarea>%s</textarea><!--c-->%s" % (esc(txt()), esc(txt())))
    pre = rng.choice(["<!DOCTYPE html>", "<!DOCTYPE html>", ""])
    hattr = rng.choice(["", "", "", " lang=\"en\"", " data-k=\"v\" class=\"h\"", " profile=\"%s\"" % esc(txt())])
    hlead = rng.choice(["", "", "", "<!--lead-->", "\n  "])
    return "%s<html%s><head%s>%s%s</head><body>%s</body></html>" % (
        pre, rng.choice(["", "", " lang=\"x\""]), hattr, hlead, "".join(head), "".join(body)), decl


def declares(attrs, want):
    """Does this meta's attribute list declare an encoding? -> canonical name, or None (no declaration), or '?' (unknown label)"""
    import webencodings
    d = dict(attrs)
    lab = None
    if "charset" in d:
        lab = d["charset"]
    elif d.get("http-equiv", "").lower() == "content-type" and "content" in d:
        b = PS.extract_from_content(d["content"].encode("utf-8", "replace"))
        lab = b.decode("utf-8", "replace") if b is not None else None
    if lab is None:
        return None
    e = webencodings.lookup(lab)
    return e.name if e else "?"


def neutralise(flat):
    out = []
    for e in flat:
        if e[0] == "S" and e[2] == "meta":
            d = dict(e[3])
            attrs = []
            for k, v in e[3]:
                if k.lower() == "charset":
                    v = "*"
                elif k == "content" and d.get("http-equiv", "").lower() == "content-type":
                    v = "*"
                attrs.append((k, v))
            e = ("S", e[1], e[2], tuple(attrs))
        out.append(e)
    return out


def with_injected(flat):
    out = []
    done = False
    for e in flat:
        out.append(e)
        if not done and e[0] == "S" and e[2] == "head" and e[1] == canon.HTML:
            out.append(("S", canon.HTML, "meta", (("charset", "*"),)))
            out.append(("E",))
            done = True
    return out


def head_metas(flat):
    res = []
    depth = 0
    in_head = None
    for e in flat:
        if e[0] == "S":
            depth += 1
            if e[2] == "head" and e[1] == canon.HTML and in_head is None:
                in_head = depth
            elif in_head is not None and e[2] == "meta":
                res.append(e[3])
        elif e[0] == "E":
            if in_head is not None and depth == in_head:
                return res
            depth -= 1
    return res


def writer_reader_codecs_differ(enc):
    import webencodings
    try:
        return codecs.lookup(enc).name != webencodings.lookup(enc).codec_info.name
    except Exception:
        return False


def reader_text(enc, b):
    import webencodings
    try:
        return webencodings.lookup(enc).codec_info.decode(b, "replace")[0]
    except Exception:
        return None


def judge(ctx, case):
    from .. import h5
    from html5lib import serializer, html5parser
    markup, enc, omit, kind = case["markup"], case["encoding"], case["omit"], case["walker"]
    want = canon_name(enc)
    flat, p, tree = h5.parse_doc(markup, kind="etree-full" if kind == "etree" else "dom")
    W = h5.walker(kind)
    try:
        plain = serializer.HTMLSerializer(omit_optional_tags=omit).render(W(tree))
        b = serializer.HTMLSerializer(omit_optional_tags=omit).render(W(tree), enc)
    except Exception as e:
        ctx.violation("render-raised:" + type(e).__name__, case, "%s: %s" % (type(e).__name__, short(str(e), 200)))
        return
    nonascii = any(ord(c) > 127 for c in markup)
    ctx.case([markup, enc, omit, kind], nontrivial=nonascii or case.get("decls", 0) > 0)
    ctx.count("cases")
    ctx.add("labels_used", enc)
    ascii_compatible = True
    try:
        ascii_compatible = "<a>".encode(enc) == b"<a>"
    except Exception:
        ascii_compatible = False
    if not ascii_compatible:
        # listed finding: UTF-16 family cannot be self-declared; 'utf-16' additionally emits a BOM per fragment
        pb = html5parser.HTMLParser(h5.tb("etree-full"))
        try:
            t2 = pb.parse(b)
            same = canon.canon_etree(t2) == h5.parse_doc(plain)[0] and pb.documentEncoding == want
        except Exception:
            same = False
        if not same:
            ctx.known_finding("non-ascii-compatible-output-encoding", case, "encoding %s: the bytes are not sniffed back / do not give the same tree" % enc)
        return
    # 1. strict decode
    try:
        text = codecs.lookup(enc).decode(b, "strict")[0]
    except UnicodeDecodeError as e:
        ctx.violation("bytes-do-not-decode-strictly", case, "%s: %r" % (enc, e))
        return
    # 1b. lexically inside head: with every tag written out, no <meta can precede the head start tag
    if not omit:
        hpos = b.find(b"<head")
        mpos = b.find(b"<meta")
        ctx.count("lexical_position_checked")
        if hpos >= 0 and 0 <= mpos < hpos:
            ctx.violation("meta-written-before-head-start-tag", case, "encoding %s: bytes %r" % (enc, b[:160]))
            return
    # 2./3. hint-free parse
    pb = html5parser.HTMLParser(h5.tb("etree-full"))
    A = canon.canon_etree(pb.parse(b))
    got_enc = pb.documentEncoding
    B = h5.parse_doc(plain)[0]
    nB = neutralise(B)

    def checks(A, got_enc):
        """-> (violation class, detail) or (None, 'rewritten' | 'injected')"""
        metas = head_metas(A)
        decls = [declares(m, want) for m in metas]
        if want not in decls:
            return "no-declaration-in-head", "encoding %s (%s): head metas %r; bytes %r" % (enc, want, metas[:3], b[:200])
        others = [d for d in decls if d not in (None, want)]
        if others:
            return "other-declaration-left-in-head", "encoding %s: head still declares %r: %r" % (enc, others, metas[:4])
        if got_enc is not None and got_enc != want:
            return "sniffed-encoding-differs", "declared %s (%s) but documentEncoding is %s; bytes %r" % (enc, want, got_enc, b[:200])
        # 4. same tree up to the declaration
        nA = neutralise(A)
        if nA == nB:
            return None, "rewritten_in_place"
        if nA == with_injected(nB):
            # "one injected if there is none": the unencoded document's head must not hold a declaration already
            # (the tree that was serialized, not the re-parse of the unencoded output: optional-tag omission can move a
            # body-level meta into head on the way back, a listed C13 finding)
            if any(declares(m, want) is not None for m in head_metas(flat)):
                return "declaration-injected-although-one-exists", "encoding %s: head of the source already declares %r; bytes %r" % (
                    enc, [declares(m, want) for m in head_metas(flat)], b[:200])
            return None, "injected"
        return "tree-differs-beyond-the-declaration", "encoding %s: %s" % (enc, canon.diff_text(nB, nA, "unencoded", "encoded"))

    klass, detail = checks(A, got_enc)
    if klass is None:
        ctx.count("declaration_found_in_head")
        ctx.count("sniffed_back")
        ctx.count(detail)
        if b.find(b"<meta") > 1024 or b.find(b"<meta") < 0:
            ctx.count("declaration_beyond_prescan_window")
        return
    if writer_reader_codecs_differ(enc) and reader_text(enc, b) != text:
        # (only when the two codecs really read these bytes differently)
        # listed finding: the serializer encodes with Python's codec of that name, readers (html5lib included) decode the
        # label with the WHATWG encoding (big5 -> big5-hkscs, euc-kr -> cp949, iso-8859-1 -> windows-1252, iso-2022-kr and
        # hz-gb-2312 -> replacement ...); decoded with the writer's own codec the bytes must pass every clause
        k2, d2 = checks(h5.parse_doc(text)[0], None)
        if k2 is None:
            ctx.known_finding("python-codec-differs-from-labelled-encoding", case, "%s: %s" % (klass, detail))
            return
    ctx.violation(klass, case, detail)


def shard(ctx):
    labs = labels()
    core = ["utf-8", "ascii", "iso-8859-1", "koi8-r", "shift_jis", "windows-1252", "euc-jp", "gbk", "big5", "iso-8859-2", "windows-1251",
            "utf-16", "utf-16le", "utf-16be", "gb18030", "euc-kr", "iso-8859-15", "macintosh", "latin1", "cp1252", "us-ascii", "iso-2022-jp"]
    core = [c for c in core if c in labs]
    k = 0
    seeds = ["<html><head></head><body>caf\xe9</body></html>", "<p>x", "<html><head><meta charset=koi8-r><meta http-equiv=content-type content='text/html; charset=koi8-r'></head><body>п",
             "<head><title>" + "\xe9" * 1200 + "</title><meta charset=koi8-r></head>€", "<head/><body><meta charset=koi8-r>x", "<head><META CHARSET=KOI8-R></head>x",
             "<head><meta http-equiv=refresh content='1; charset=koi8-r'></head>y", "<html><head><meta name=a content=b></head><body>\U0001F600"]
    for s in seeds:
        for enc in core:
            for omit in (True, False):
                k += 1
                if ctx.mine(k):
                    judge(ctx, {"markup": s, "encoding": enc, "omit": omit, "walker": ("etree", "dom")[k % 2], "decls": 1})
    n, idx = 0, ctx.i
    limit = (30000 if ctx.tier == "quick" else 2000000) // ctx.n
    t_end = time.time() + ctx.time_left()
    while n < limit and time.time() < t_end:
        rng = ctx.rng("rand", idx)
        idx += ctx.n
        n += 1
        markup, decl = gen_doc(rng)
        enc = rng.choice(core) if rng.random() < 0.6 else rng.choice(labs)
        case = {"markup": markup, "encoding": enc, "omit": rng.random() < 0.5, "walker": rng.choice(["etree", "dom"]), "decls": decl}
        judge(ctx, case)
        if n <= 3 and ctx.i == 0:
            ctx.sample(dict(case, markup=short(markup, 300)))


def replay(ctx, case):
    judge(ctx, case)


def finalize(m, v):
    c = m["counters"]
    if c.get("rewritten_in_place", 0) < 500 or c.get("injected", 0) < 500:
        m["inconclusive"].append("rewrite path (%d) or inject path (%d) taken fewer than 500 times" % (c.get("rewritten_in_place", 0), c.get("injected", 0)))
    if c.get("declaration_beyond_prescan_window", 0) < 200:
        m["inconclusive"].append("fewer than 200 cases with the declaration beyond the 1024-byte prescan window (late re-parse path)")
    if len(m["sets"].get("labels_used", ())) < 40:
        m["inconclusive"].append("fewer than 40 labels exercised")
    return {"label_count": len(m["sets"].get("labels_used", ()))}
