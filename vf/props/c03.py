"""C03 - parsing is total: exception trap + logical step budget + skeleton oracle."""
import io
import sys
import time
import traceback

from .. import gen, canon
from ..common import short

LEVEL = "exploration"
TECHNIQUE = "runtime monitoring: exception trap + logical step budget (sys.monitoring) + skeleton oracle over generated hostile inputs"
LEVEL_TEXT = ("Held on the executions produced: every generated (input, builder, namespacing, document|fragment, container, "
              "scripting, source kind) case ran under an exception trap and a logical step budget, and every document was "
              "checked against the skeleton oracle by direct traversal. Pathological depth families go past the recursion "
              "limit for every element role; this is exploration, not proof.")
BUDGET_S = {"quick": 45, "thorough": 600}
STALL_S = 900  # one deep quadratic case may legitimately run for minutes on a loaded machine
RULE = ("cases = (input, source kind, builder, namespacing, document|fragment+container, scripting) drawn from "
        "pathological depth/length families (deterministic), markup soup, structure-aware misnesting, random str "
        "and random bytes; every case is run under an exception trap, a logical step budget (Python function "
        "entries inside html5lib, via sys.monitoring) and, for documents, the skeleton oracle on the canonical "
        "tree read by direct traversal. distinct_nontrivial counts distinct (input, configuration) hashes whose "
        "input is longer than 3 characters.")
ASSUMPTIONS = [
    "termination is decided as bounded progress: a logical step budget proportional to (n+1)*(depth+2)*K; the wall-clock watchdog is separate and only makes a run inconclusive",
    "skeleton reading: html's element children must START with head then body|frameset; after a frameset the WHATWG algorithm itself can add children to html (noframes; formatting elements reconstructed by trailing whitespace, e.g. <font><frameset></frameset></html>SPACE) and those are not counted; after a body nothing may follow",
    "container names are element names (non-empty strings)",
]

import os as _os
_REPO_PREFIX = None


class BudgetExceeded(BaseException):
    pass


class StepCounter(object):
    """Counts PY_START events of code objects under REPO/html5lib; raises when over budget."""
    TOOL = 3

    def __init__(self):
        self.n = 0
        self.limit = None
        self.on = False
        from ..common import REPO
        self.prefix = _os.path.join(REPO, "html5lib") + _os.sep
        self.mon = sys.monitoring
        self._known = {}

    def _cb(self, code, off):
        k = self._known.get(code)
        if k is None:
            k = self._known[code] = code.co_filename.startswith(self.prefix)
        if not k:
            return self.mon.DISABLE
        self.n += 1
        if self.limit is not None and self.n > self.limit:
            self.limit = None
            raise BudgetExceeded()

    def start(self):
        m = self.mon
        m.use_tool_id(self.TOOL, "vf-steps")
        m.register_callback(self.TOOL, m.events.PY_START, self._cb)
        m.set_events(self.TOOL, m.events.PY_START)
        self.on = True

    def stop(self):
        if self.on:
            self.mon.set_events(self.TOOL, 0)
            self.mon.free_tool_id(self.TOOL)
            self.on = False


def exc_class(e):
    """exception type + innermost html5lib frame (for RecursionError: the most frequent frame)."""
    tb = traceback.extract_tb(e.__traceback__)
    names = ["%s:%s" % (_os.path.basename(fr.filename), fr.name) for fr in tb if "/html5lib/" in fr.filename]
    if not names:
        return "%s@outside-html5lib" % type(e).__name__
    if isinstance(e, RecursionError):
        best = max(set(names), key=names.count)
        return "RecursionError@" + best
    return "%s@%s" % (type(e).__name__, names[-1])


def check_skeleton(flat):
    """-> None or reason string.  flat is a document canon ('doc', ...)."""
    if not flat or flat[0] != ("doc",):
        return "result is not a document node"
    top = canon.children_of(flat, 0)
    n_doctype = 0
    html_idx = []
    for i in top:
        e = flat[i]
        if e[0] == "D":
            if html_idx:
                return "doctype after the root element"
            n_doctype += 1
        elif e[0] == "C":
            pass
        elif e[0] == "S":
            html_idx.append(i)
        elif e[0] == "T":
            return "text %r directly under the document" % short(e[1], 40)
    if n_doctype > 1:
        return "%d doctypes" % n_doctype
    if len(html_idx) != 1:
        return "%d root elements" % len(html_idx)
    h = flat[html_idx[0]]
    if h[2] != "html" or h[1] not in (canon.HTML, None):
        return "root element is %r" % (h[1:3],)
    els = []
    for i in canon.children_of(flat, html_idx[0]):
        e = flat[i]
        if e[0] == "S":
            els.append(e[2] if e[1] in (canon.HTML, None) else "{%s}%s" % (e[1], e[2]))
        elif e[0] == "T":
            if e[1].strip(" \t\n\x0c\r"):
                return "non-whitespace text %r directly under html" % short(e[1], 40)
        elif e[0] == "D":
            return "doctype under html"
    if len(els) < 2 or els[0] != "head" or els[1] not in ("body", "frameset"):
        return "html element children are %r" % (els[:5],)
    extra = els[2:]
    # after a frameset the standard's own algorithm can add children to html: noframes ("after frameset"), and
    # formatting elements reconstructed from the active list by whitespace in "after after frameset"
    if extra and els[1] != "frameset":
        return "html element children are %r" % (els[:6],)
    return None


class ShortReader(object):
    def __init__(self, data, sizes):
        self.data, self.pos, self.sizes, self.k = data, 0, sizes, 0

    def read(self, n=-1):
        if n is None or n < 0:
            n = len(self.data) - self.pos
        lim = self.sizes[self.k % len(self.sizes)]
        self.k += 1
        n = max(1, min(n, lim)) if n else 0
        r = self.data[self.pos:self.pos + n]
        self.pos += len(r)
        return r


def make_source(data, kind):
    if kind == "str":
        return data
    if kind == "StringIO":
        return io.StringIO(data)
    if kind == "shortstr":
        return ShortReader(data, [1, 2, 3, 7])
    b = data if isinstance(data, bytes) else data.encode("utf-8", "surrogatepass")
    if kind == "bytes":
        return b
    if kind == "BytesIO":
        return io.BytesIO(b)
    if kind == "shortbytes":
        return ShortReader(b, [1, 5, 2, 64])
    raise ValueError(kind)


def est_depth(s):
    if isinstance(s, bytes):
        return s.count(b"<")
    return s.count("<")


STEPS = None
K_BUDGET = 4000


def run_case(ctx, case):
    """case: dict(input, src, builder, ns, frag, container, scripting)"""
    from .. import h5
    global STEPS
    if STEPS is None:
        STEPS = StepCounter()
        STEPS.start()
    data = case["input"]
    n = len(data)
    d = min(est_depth(data), 60000)
    STEPS.n = 0
    # quadratic worst case (adoption agency / scope walks): budget ~ K * (n+1) * (min(d, 1000)+2)
    STEPS.limit = K_BUDGET * (n + 1) * (min(d, 2000) + 2) + 200000
    src = make_source(data, case["src"])
    kind = case["builder"]
    key = [short(data, 10 ** 9) if isinstance(data, str) else data.hex(), case["src"], kind, case["ns"], case["frag"],
           case.get("container"), case["scripting"]]
    ctx.case(key, nontrivial=n > 3)
    t_case = time.time()
    try:
        if case["frag"]:
            flat, p, tree = h5.parse_frag(src, container=case["container"], kind="dom" if kind == "dom" else "etree",
                                          ns=case["ns"], scripting=case["scripting"])
        else:
            flat, p, tree = h5.parse_doc(src, kind=kind, ns=case["ns"], scripting=case["scripting"])
    except BudgetExceeded:
        STEPS.limit = None
        ctx.violation("step-budget-exceeded", case, "more than %d function entries inside html5lib for %d chars"
                      % (K_BUDGET * (n + 1) * (min(d, 2000) + 2) + 200000, n))
        return
    except Exception as e:  # noqa
        STEPS.limit = None
        ctx.violation("exception:" + exc_class(e), case, "%s: %s" % (type(e).__name__, short(str(e), 300)))
        return
    finally:
        STEPS.limit = None
    steps = STEPS.n
    dt = time.time() - t_case
    if dt > 10:
        ctx.add("slow_cases_over_10s", "%s %s %.0fs" % (case.get("family", short(repr(data), 40)), kind, dt))
    ctx.count("steps_total", steps)
    ratio = steps / float((n + 1) * (min(d, 2000) + 2))
    ctx.counters["max:steps_per_n_d_x1000"] = max(ctx.counters.get("max:steps_per_n_d_x1000", 0), int(ratio * 1000))
    if case["frag"]:
        ctx.count("fragments")
        if tree is None or not flat or (kind != "etree" and False):
            ctx.violation("fragment-none", case, "parseFragment returned %r" % (tree,))
        elif flat[0] != ("frag",):
            ctx.violation("fragment-shape", case, "fragment root is %r" % (flat[0],))
        return
    ctx.count("documents")
    if kind == "etree":
        # root-element return form: must be the html element
        if tree is None:
            ctx.violation("skeleton:no-root", case, "etree root form returned None")
            return
        flat = [("doc",)] + flat
    why = check_skeleton(flat)
    if why:
        ctx.violation("skeleton:" + why.split(" %r")[0].split(" '")[0][:40], case, why + " :: " + canon.compact(flat)[:600])


# ---------------------------------------------------------------- workloads
ROLE_FAMILIES = {
    "formatting": ["b", "a", "nobr", "font", "i"],
    "block": ["div", "p", "blockquote", "section", "h1", "ul", "form", "pre", "dialog", "main", "center"],
    "implied-end": ["li", "dd", "dt", "option", "optgroup", "rp", "rt", "rb", "rtc", "p"],
    "table": ["table", "tr", "td", "tbody", "caption", "colgroup", "th"],
    "select": ["select", "option", "optgroup"],
    "foreign": ["svg", "math", "g", "mi", "foreignObject", "annotation-xml", "desc"],
    "scoping": ["button", "applet", "marquee", "object"],
    "other": ["span", "x", "ruby", "template", "fieldset", "details", "noscript", "html", "body", "head", "frameset"],
}


def pathological(tier):
    """(name, input) deterministic families.  Depth 1500 is past CPython's default recursion limit (1000),
    so every recursive helper is exposed; the deeper rungs exercise quadratic paths."""
    DEEP_NAMES = ("b", "div", "li", "rt", "td", "svg", "option", "span", "p", "button", "a", "table", "select")
    depths = [1500] if tier == "quick" else [1500, 5000]
    deep = [3000] if tier == "quick" else [20000, 50000]
    # measured under the step-counting monitor: div/rt (scope walks per start tag) cost ~125 s at depth 10000, b/svg/span
    # ~13 s at 20000, the rest are linear; the deepest rungs are chosen so that one case stays well below the watchdog
    deep_for = {"div": [7000], "rt": [7000], "b": [20000], "svg": [20000], "span": [20000]} if tier != "quick" else {}
    fams = []
    for role, names in sorted(ROLE_FAMILIES.items()):
        for nm in names:
            o = "<%s>" % nm
            c = "</%s>" % nm
            for d in depths:
                fams.append(("%s*%d" % (nm, d), o * d))
                fams.append(("div+%s*%d+/div" % (nm, d), "<div>" + o * d + "</div>"))
                fams.append(("%s*%d closed" % (nm, d), o * d + "x" + c * d))
                fams.append(("ruby+%s*%d" % (nm, d), "<ruby>" + o * d + "</ruby>"))
                fams.append(("table+%s*%d" % (nm, d), "<table>" + o * d + "x</table>"))
                fams.append(("select+%s*%d" % (nm, d), "<select>" + o * d))
                fams.append(("svg+%s*%d" % (nm, d), "<svg>" + o * d + "</svg><p>"))
            if nm in DEEP_NAMES:
                for d in deep_for.get(nm, deep):
                    fams.append(("%s*%d" % (nm, d), o * d))
                    if nm in ("rt", "li", "option", "p", "div"):
                        fams.append(("div+%s*%d+/div" % (nm, d), "<div>" + o * d + "</div>"))
    for d in depths:
        fams.append(("table-in-table*%d" % d, "<table><tr><td>" * d))
        fams.append(("b-i-interleave*%d" % d, "<b><i>" * d + "</b></i>" * d))
        fams.append(("b-p-aaa*%d" % d, "<b>" * d + "<p>" + "</b>" * d))
        fams.append(("a-div-aaa*%d" % d, "<a><div>" * d + "</a>" * d))
        fams.append(("afe*%d" % d, "".join("<b id=%d>" % i for i in range(d)) + "<p>x</p>"))
        fams.append(("endtags*%d" % d, "</b></p></div>" * d))
        fams.append(("comments*%d" % d, "<!--x-->" * d))
        fams.append(("entities*%d" % d, "&amp;&notit;&#x80;" * d))
        fams.append(("attrs*%d" % d, "<div " + " ".join("a%d=%d" % (i, i) for i in range(d)) + ">"))
        fams.append(("dupattrs*%d" % d, "<div " + "a=1 " * d + ">"))
        fams.append(("lt*%d" % d, "<" * d))
        fams.append(("nul*%d" % d, "\x00" * d))
        fams.append(("cr*%d" % d, "\r" * d + "\r\n" * d))
        fams.append(("table-text-tr*%d" % d, "<table>" + "x<tr>" * d))
        fams.append(("script-escapes*%d" % d, "<script>" + "<!--<script>" * d))
    fams.append(("text*1e6", "x" * (300000 if tier == "quick" else 1000000)))
    for nd in (4299, 4301, 5000, 20000):
        fams.append(("numref-dec*%d" % nd, "x&#" + "9" * nd + ";y"))
        fams.append(("numref-dec-zeros*%d" % nd, "x&#" + "0" * nd + "65;y"))
        fams.append(("numref-hex*%d" % nd, "x&#x" + "F" * nd + ";y"))
        fams.append(("numref-attr*%d" % nd, "<a b='&#" + "1" * nd + "' c=&#x" + "0" * nd + "41>"))
    fams.append(("longtag", "<" + "a" * 200000 + ">"))
    # byte input whose <meta> pragma is malformed, inside and beyond the 1024-byte prescan window (tree construction then
    # runs its own content= parser on it)
    for pad in (0, 1100):
        for c in ("text/html; charset='utf-8", "text/html; charset=\"koi8-r", "charset= ", "charset=", "charset", "charset  =", "charset='",
                  "charset=\t\n", ";charset=x'y\"", "charset=utf-8 charset='"):
            q = "'" if '"' in c else '"'
            fams.append(("meta-pragma-malformed", ("<!--" + "x" * pad + "--><meta http-equiv=content-type content=%s%s%s>\xe9" % (q, c, q)).encode("latin-1")))
            fams.append(("meta-pragma-malformed", ("<!--" + "x" * pad + "--><meta content=%s%s%s http-equiv=Content-Type><p>" % (q, c, q)).encode("latin-1")))
    fams.append(("longattr", "<a b='" + "c" * 200000 + "'>"))
    fams.append(("longcomment", "<!--" + "-" * 200000))
    return fams


CONTAINERS = gen.CONTEXTS + ["DIV", "Table", "svg", "math", "élément", "x-y", "foo bar", "html5", "TITLE"]


def shard(ctx):
    fams = pathological(ctx.tier)
    k = 0
    for name, inp in fams:
        for kind in ("etree-full", "dom"):
            k += 1
            if not ctx.mine(k):
                continue
            case = {"input": inp, "src": "str", "builder": kind, "ns": True, "frag": False, "container": None,
                    "scripting": False, "family": name}
            run_case(ctx, case)
            ctx.count("pathological_cases")
            ctx.add("families", name.split("*")[0] if len(name) < 40 else name[:40])
        # one fragment variant per family, alternating builders
        k += 1
        if ctx.mine(k) and len(inp) < 200000:
            case = {"input": inp, "src": "str", "builder": "dom" if k % 2 else "etree", "ns": bool(k % 3), "frag": True,
                    "container": CONTAINERS[k % len(CONTAINERS)], "scripting": bool(k % 2), "family": name}
            run_case(ctx, case)
            ctx.count("pathological_cases")
    # every container name x tiny probes (fragment reset-insertion-mode paths)
    probes = ["", "x", "<td>x", "</td>", "<tr>", "</table>", "<option>", "</select>", "<body>", "</body>", "</html>",
              "<frameset>", "<col>", "</caption>", "<html a=b>", "\x00", " ", "<svg><td>", "</p>", "</br>", "<head>"]
    for ci, cont in enumerate(CONTAINERS):
        for pi, pr in enumerate(probes):
            k += 1
            if not ctx.mine(k):
                continue
            run_case(ctx, {"input": pr, "src": "str", "builder": ("etree", "dom")[(ci + pi) % 2], "ns": True,
                           "frag": True, "container": cont, "scripting": bool(pi % 2)})
            ctx.count("container_probe_cases")
            ctx.add("containers", cont)
    # end of input in every tokenizer state: every proper and improper prefix of C16's catalogue of construct spellings, as a
    # document and as a fragment whose context element selects each tokenizer start state (a state that does not leave
    # itself at EOF makes the tokenizer emit for ever: the step budget sees it)
    from . import c16 as _c16
    EOF_CONTEXTS = ("div", "title", "textarea", "style", "script", "plaintext", "xmp", "noscript", "svg", "math", "table", "select")
    ke = 0
    for sp in _c16.EOF_SPELLINGS:
        for cut in range(1, len(sp) + 1):
            ke += 1
            if not ctx.mine(ke):
                continue
            pre = sp[:cut]
            run_case(ctx, {"input": pre, "src": ("str", "shortstr")[ke % 2], "builder": ("etree-full", "dom")[ke % 2], "ns": True, "frag": False,
                           "container": None, "scripting": bool(ke % 3 == 0)})
            run_case(ctx, {"input": pre, "src": "str", "builder": ("dom", "etree")[ke % 2], "ns": True, "frag": True,
                           "container": EOF_CONTEXTS[ke % len(EOF_CONTEXTS)], "scripting": bool(ke % 2)})
            ctx.count("eof_prefix_cases")
    # the insertion-mode x token walk of C01's catalogue (every context prefix x every probe token), here for totality:
    # builders alternate, every fourth case is also run as a fragment in a rotating context
    from . import c01 as _c01
    pr = _c01.probes()
    kk = 0
    for pi, pre in enumerate(_c01.PREFIXES):
        for qi, q in enumerate(pr):
            kk += 1
            if not ctx.mine(kk):
                continue
            run_case(ctx, {"input": pre + q + "y<b>z", "src": "str", "builder": ("etree-full", "dom")[(pi + qi) % 2], "ns": True, "frag": False,
                           "container": None, "scripting": bool(qi % 2)})
            if kk % 4 == 0:
                run_case(ctx, {"input": pre + q, "src": "str", "builder": ("dom", "etree")[(pi + qi) % 2], "ns": bool(qi % 3), "frag": True,
                               "container": CONTAINERS[(pi + qi) % len(CONTAINERS)], "scripting": False})
            ctx.count("mode_token_walk_cases")
    # every short token sequence, both builders, document and one fragment context (bounded-exhaustive)
    for qi, q in enumerate(gen.token_sequences(ctx, 2, 3, 0.3, min_seconds=120.0)):
        for kind in ("etree-full", "dom"):
            run_case(ctx, {"input": q, "src": "str", "builder": kind, "ns": True, "frag": False, "container": None, "scripting": False})
        run_case(ctx, {"input": q, "src": "str", "builder": ("etree", "dom")[qi % 2], "ns": bool(qi % 3), "frag": True,
                       "container": CONTAINERS[qi % len(CONTAINERS)], "scripting": bool(qi % 2)})
        ctx.count("sequence_cases")
    # random part
    idx = ctx.i
    n_random = 0
    limit = (6000 if ctx.tier == "quick" else 400000) // ctx.n
    t_end = time.time() + max(5.0, ctx.time_left())
    while n_random < limit and time.time() < t_end:
        rng = ctx.rng("random", idx)
        idx += ctx.n
        n_random += 1
        r = rng.random()
        if r < 0.12:
            data = bytes(rng.randrange(256) for _ in range(rng.randint(1, 120)))
            src = rng.choice(["bytes", "BytesIO", "shortbytes"])
        else:
            data = gen.mixed(rng, 40 if ctx.tier == "quick" else 120)
            src = rng.choice(["str", "str", "StringIO", "shortstr", "bytes", "BytesIO", "shortbytes"])
        frag = rng.random() < 0.4
        case = {"input": data, "src": src, "builder": rng.choice(["etree", "etree-full", "dom"]),
                "ns": rng.random() < 0.7, "frag": frag, "container": rng.choice(CONTAINERS) if frag else None,
                "scripting": rng.random() < 0.5}
        run_case(ctx, case)
        ctx.count("random_cases")
        ctx.add("source_kinds", src)
        if n_random <= 2 and ctx.i == 0:
            ctx.sample({"input": short(data if isinstance(data, str) else repr(data), 200),
                        "config": {k2: v for k2, v in case.items() if k2 != "input"}})
    if STEPS is not None:
        STEPS.stop()


def replay(ctx, case):
    run_case(ctx, case)


def finalize(m, v):
    gen.sequences_inconclusive(m)
    c = m["counters"]
    if c.get("pathological_cases", 0) < 100:
        m["inconclusive"].append("fewer than 100 pathological cases ran")
    if c.get("random_cases", 0) < 1000:
        m["inconclusive"].append("fewer than 1000 random cases ran (%d)" % c.get("random_cases", 0))
    if c.get("steps_total", 0) == 0:
        m["inconclusive"].append("the step monitor observed no function entry inside html5lib")
    return {}
