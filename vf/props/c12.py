"""C12 - parser objects are reusable: history monitor, fault injection, fresh-interpreter and thread stress."""
import io
import json
import os
import subprocess
import sys
import threading
import time

from .. import gen, canon, common
from ..common import short

LEVEL = "fault_enumeration"
TECHNIQUE = ("runtime monitoring of call histories: every call on a reused parser/serializer/walker vs the same call on "
             "a fresh object (and, for a sample, in a fresh interpreter); fault injection at every read of the input "
             "source and at the first strict-mode error; multi-thread stress with statement-level yield injection")
LEVEL_TEXT = ("Held on the executions produced: for every generated history (<= 6 operations from a state-heavy pool, "
              "interleaved with aborts: strict ParseError at the first error, an input source raising at read k for every "
              "k the document needs, abandoned serializer iterations) each call on the reused object returned exactly "
              "what a fresh object returned; a sample was replayed in fresh interpreters; 8 threads with independent "
              "objects under injected yields matched the sequential results. Fault points are enumerated per document; "
              "histories and interleavings are sampled.")
BUDGET_S = {"quick": 50, "thorough": 900}
MAX_SHARDS = 16
RULE = ("cases = call histories on one shared HTMLParser (strict and non-strict), HTMLSerializer and walker objects: "
        "sequences of <= 6 operations (parse / parseFragment with random container and scripting) over a state-heavy "
        "document pool, interleaved with aborts (strict error; source raising at read k, k enumerated over all reads of "
        "the document at chunk size 4); every call's (tree, errors | exception) is compared with a fresh object's. "
        "distinct_nontrivial = distinct histories containing at least one abort or at least two different documents.")
ASSUMPTIONS = [
    "a call aborted by an exception is compared by exception type and message with the same call on a fresh object",
    "thread schedule reach: CPython's GIL serialises bytecode; interleavings explored are statement-level hand-offs (sys.monitoring LINE events yielding at random ~2% of statements inside html5lib) plus a 1 microsecond switch interval",
    "fresh-interpreter replay is sampled (process-wide caches start empty there)",
]

POOL = [
    "<table>foo&bar;", "<table>foo", "<table> x", "<table><tr><td>a<b>b", "<pre>", "<pre>\n", "<listing>", "<textarea>",
    "<textarea>\nx", "<title>x", "<style>x", "<script>x", "<script><!--<script>", "<plaintext>x", "<xmp>x",
    "<select><option>x", "<table><caption>x", "<table><colgroup>", "<frameset><frame>", "<svg><g>x", "<math><mi>x",
    "<svg><foreignObject><p>x", "<form><input>", "<head><base><title>t</title>", "<b><i><u>x", "<a href=x><b>y<p>z",
    "<b><b><b><b>x", "<!DOCTYPE html PUBLIC \"-//W3C//DTD HTML 3.2//EN\"><p><table>x", "<!DOCTYPE html><p>clean</p>",
    "<table><b><tr><td>aaa</td></tr>bbb</table>ccc", "<p><b></p>x", "<ruby><rt>x", "<button><p>x", "<ul><li><ol><li>x",
    "<body a=b><body c=d>", "<html x=y><head></head><html z=w>", "<iframe>x", "<noscript>x", "<noframes>x",
    "<table><tr><td><select><option>x", "<table><input type=hidden><input>x", "<dl><dt>a<dd>b", "x&amp;y&notit;z",
    "<!--c--><!DOCTYPE html><!--d-->", "<marquee><b>x</marquee>y", "<object><b>x</object>y", "<applet><i>x", "",
    " ", "\x00", "<p>\x00x", "</p>", "</br>", "<br/>", "<image>", "<isindex>", "<nobr><nobr>x", "<h1><h2>x",
    "<table>\x00x", "<svg><![CDATA[x]]>", "<math><annotation-xml encoding=text/html><p>x", "<p><svg><title><p>x",
]
POOL += ["<svg>\x00y", "<math><mi>a</mi>\x00", "<svg><g>x\x00</g>z", "<select>\x00x", "<svg><desc>\x00", "<p>a\x00b<svg>\x00"]
POOL += ["<u%d>x</u%d>" % (i, i) for i in range(0, 300, 7)]
BYTES_POOL = [b"<meta charset=koi8-r>\xc1\xc2", b"<p>\xe9", b"\xef\xbb\xbf<p>x", b"<title>x</title><meta charset=shift_jis>\x82\xa0",
              b"<meta http-equiv=content-type content='text/html; charset=iso-8859-2'>\xb1", b"<!--" + b"x" * 1100 + b"--><meta charset=utf-8>\xc3\xa9"]
ENTITY_NAMES = ["amp;", "lt;", "gt", "notin;", "not", "copy", "zwnj;", "NotEqualTilde;", "aacute", "Aacute;", "xi;", "Xi;", "nbsp", "para;", "parallel;",
                "rarr;", "rArr;", "CounterClockwiseContourIntegral;", "b;", "bogus;", "zeta;", "Zeta;", "quot", "apos;", "hellip;", "mdash;"]
CONTAINERS = ["div", "table", "tr", "td", "select", "textarea", "title", "script", "pre", "html", "body", "head", "p", "svg"]


class Boom(Exception):
    pass


class FaultySource(object):
    """Text source that raises at read number k (0-based); short reads of 4 chars so k ranges over token positions."""

    def __init__(self, data, k, size=4):
        self.data, self.k, self.size, self.n, self.pos = data, k, size, 0, 0

    def read(self, n=-1):
        if n == 0:
            return self.data[:0]
        if self.n == self.k:
            self.n += 1
            raise Boom("injected read fault at read %d" % self.k)
        self.n += 1
        r = self.data[self.pos:self.pos + self.size]
        self.pos += len(r)
        return r


def do_call(parser, op, kind):
    """-> ('ok', canon, errors, encoding) | ('exc', type name, message)"""
    from .. import h5
    data = op["doc"]
    if isinstance(data, dict):
        data = common.unjson(data)
    src = data
    if op.get("fault") is not None:
        src = FaultySource(data, op["fault"])
    try:
        if op["op"] == "parse":
            tree = parser.parse(src, scripting=op["scripting"])
        else:
            tree = parser.parseFragment(src, container=op["container"], scripting=op["scripting"])
    except BaseException as e:  # noqa
        if isinstance(e, (KeyboardInterrupt, SystemExit)):
            raise
        return ("exc", type(e).__name__, str(e)[:300])
    flat = h5.canon_of(tree, kind)
    return ("ok", flat, h5.errors_of(parser), parser.documentEncoding if isinstance(data, bytes) else None)


class ModuleDoor(object):
    """html5lib.parse / html5lib.parseFragment (builder by name) behind the parser-object interface do_call expects."""
    errors = ()
    documentEncoding = None

    def __init__(self, kind):
        self.name = "dom" if kind == "dom" else "etree"

    def parse(self, src, scripting=False):
        import html5lib
        return html5lib.parse(src, treebuilder=self.name, scripting=scripting)

    def parseFragment(self, src, container="div", scripting=False):
        import html5lib
        return html5lib.parseFragment(src, container=container, treebuilder=self.name, scripting=scripting)


def new_parser(kind, strict):
    from .. import h5
    from html5lib import html5parser
    return html5parser.HTMLParser(h5.tb(kind), strict=strict)


def gen_history(rng, strict):
    ops = []
    for _ in range(rng.randint(2, 6)):
        doc = rng.choice(POOL) if rng.random() < 0.85 else (rng.choice(BYTES_POOL) if rng.random() < 0.6 else gen.soup(rng, 10))
        op = {"op": "parse" if rng.random() < 0.6 else "frag", "doc": doc, "scripting": rng.random() < 0.3,
              "container": rng.choice(CONTAINERS), "fault": None}
        if isinstance(doc, str) and rng.random() < 0.25:
            nreads = len(doc) // 4 + 2
            op["fault"] = rng.randrange(nreads)
        ops.append(op)
    return ops


def judge_history(ctx, ops, kind, strict, label="history"):
    shared = new_parser(kind, strict)
    n_abort = 0
    case = {"ops": [dict(o, doc=common.jsonable(o["doc"])) for o in ops], "builder": kind, "strict": strict}
    for j, op in enumerate(ops):
        got = do_call(shared, op, kind)
        exp = do_call(new_parser(kind, strict), op, kind)
        ctx.count("calls_compared")
        if got[0] == "exc":
            n_abort += 1
            ctx.count("aborts:" + got[1])
        if op.get("fault") is not None:
            ctx.count("read_faults_injected")
        if got != exp:
            prev = ops[j - 1] if j else None
            klass = "state-leak"
            if got[0] == "ok" and exp[0] == "ok":
                if got[1] != exp[1]:
                    det = "tree: " + canon.diff_text(exp[1], got[1], "fresh", "reused")
                elif got[2] != exp[2]:
                    klass = "errors-leak"
                    det = "errors: fresh %r reused %r" % (exp[2][:3], got[2][:3])
                else:
                    det = "encoding: fresh %r reused %r" % (exp[3], got[3])
            else:
                det = "fresh %r reused %r" % (exp[:1] + exp[1:3] if exp[0] == "exc" else exp[0], got[:1] + got[1:3] if got[0] == "exc" else got[0])
            ctx.violation(klass, dict(case, failing_call=j), "call %d (%s of %r) after %r: %s" % (
                j, op["op"], short(repr(op["doc"]), 60), short(repr(prev["doc"]), 60) if prev else None, det))
            return
    docs = set(repr(o["doc"]) for o in ops)
    ctx.case([case["ops"], kind, strict], nontrivial=n_abort > 0 or len(docs) > 1)
    ctx.count("histories")


def judge_serializer(ctx, rng):
    """HTMLSerializer reused across render calls (with/without encoding, after an abandoned iteration and after
    a strict SerializeError) and walker objects iterated twice."""
    from .. import h5
    from html5lib import serializer
    docs = [rng.choice(POOL + ["<p>é<!--a--b-->", "<svg><style>a</b</style>", "<script>a</script>"]) for _ in range(rng.randint(2, 5))]
    opts = rng.choice([{}, {"omit_optional_tags": False}, {"quote_attr_values": "always"}, {"strip_whitespace": True},
                       {"sanitize": True}, {"alphabetical_attributes": True}])
    shared = serializer.HTMLSerializer(**opts)
    strict = rng.random() < 0.3
    shared.strict = strict
    case = {"serializer_docs": docs, "options": opts, "strict": strict}
    for j, d in enumerate(docs):
        tree = h5.parse_doc(d)[2]
        enc = rng.choice([None, None, "utf-8", "ascii"])
        mode = rng.choice(["render", "render", "abandon", "serialize"])
        W = h5.walker("etree")

        def run(s):
            try:
                if mode == "abandon":
                    it = s.serialize(W(tree), enc)
                    out = []
                    for k, piece in enumerate(it):
                        out.append(piece)
                        if k >= 2:
                            break
                    it.close()
                    return ("abandoned", out)
                if mode == "serialize":
                    # the generator entry point, driven to the end by the caller
                    return ("ok-serialize", list(s.serialize(W(tree), enc)), list(s.errors))
                return ("ok", s.render(W(tree), enc), list(s.errors))
            except Exception as e:
                return ("exc", type(e).__name__, list(s.errors))
        got = run(shared)
        fresh = serializer.HTMLSerializer(**opts)
        fresh.strict = strict
        exp = run(fresh)
        ctx.count("serializer_calls_compared")
        if got != exp:
            ctx.violation("serializer-state-leak", dict(case, failing_call=j), "render %d of %r: fresh %r reused %r" % (
                j, short(d, 50), short(repr(exp), 200), short(repr(got), 200)))
            return
        # walker object iterated twice; iterated again after an abandoned iteration; two iterations interleaved
        for wk in ("etree", "dom"):
            try:
                tw = tree if wk == "etree" else h5.parse_doc(d, kind="dom")[2]
            except Exception:
                continue
            Wk = h5.walker(wk)
            w = Wk(tw)
            a = list(w)
            b = list(w)
            ctx.count("walker_double_iterations")
            if a != b:
                ctx.violation("walker-second-iteration-differs", case, "%s walker, doc %r" % (wk, short(d, 60)))
                return
            if len(a) > 2:
                w2 = Wk(tw)
                it = iter(w2)
                for _ in range(rng.randint(1, len(a) - 1)):
                    next(it, None)
                del it  # abandoned below the root
                try:
                    c = list(w2)
                except Exception as e:
                    c = "raised %s" % type(e).__name__
                ctx.count("walker_iterations_after_abandoned_one")
                if c != a:
                    ctx.violation("walker-iteration-after-abandoned-one-differs", case, "%s walker, doc %r: %s" % (wk, short(d, 60), short(repr(c), 120)))
                    return
                w3 = Wk(tw)
                try:
                    pairs = list(zip(w3, w3))
                    ok = all(x == y for x, y in pairs) and [x for x, _ in pairs] == a
                except Exception as e:
                    ok = False
                ctx.count("walker_interleaved_iterations")
                if not ok:
                    ctx.violation("walker-interleaved-iterations-differ", case, "%s walker, doc %r" % (wk, short(d, 60)))
                    return
    ctx.case(["ser", docs, sorted(opts.items()), strict], nontrivial=True)


FRESH_SNIPPET = r"""
import sys, json
sys.path.insert(0, %(verif)r)
from vf import common
common.import_repo()
from vf.props import c12
op = json.loads(sys.stdin.read())
r = c12.do_call(c12.new_parser(op["_kind"], op["_strict"]), op, op["_kind"])
print(json.dumps(common.jsonable(r)))
"""


def fresh_interpreter(op, kind, strict):
    o = dict(op, doc=common.jsonable(op["doc"]), _kind=kind, _strict=strict)
    env = dict(os.environ, PYTHONHASHSEED="1", PYTHONDONTWRITEBYTECODE="1")
    p = subprocess.run([sys.executable, "-c", FRESH_SNIPPET % {"verif": common.VERIF_DIR}], input=json.dumps(o),
                       capture_output=True, text=True, timeout=120, env=env)
    if p.returncode != 0:
        raise common.Inconclusive("fresh interpreter failed: " + p.stderr[-300:])
    return json.loads(p.stdout)


def judge_fresh(ctx, rng):
    kind = rng.choice(["etree-full", "dom"])
    strict = rng.random() < 0.3
    ops = gen_history(rng, strict)
    shared = new_parser(kind, strict)
    for j, op in enumerate(ops):
        got = do_call(shared, op, kind)
        if j == len(ops) - 1:
            exp = fresh_interpreter(op, kind, strict)
            ctx.count("fresh_interpreter_replays")
            g = json.loads(json.dumps(common.jsonable(got)))
            if g != exp:
                ctx.violation("differs-from-fresh-interpreter", {"ops": [dict(o, doc=common.jsonable(o["doc"])) for o in ops],
                                                                  "builder": kind, "strict": strict, "fresh_interpreter": True},
                              "last call of the history differs from a fresh interpreter (other hash seed): %s vs %s" % (
                                  short(repr(exp), 300), short(repr(g), 300)))


# ------------------------------------------------------------------ threads with yield injection
class YieldInjector(object):
    TOOL = 4

    def __init__(self, seed):
        import random
        self.rng = random.Random(seed)
        self.prefix = os.path.join(common.REPO, "html5lib") + os.sep
        self.injections = 0
        self.switches = 0
        self.last_thread = None
        self.signatures = set()
        self.lock = threading.Lock()
        self._known = {}
        self.mon = sys.monitoring

    def _line(self, code, line):
        k = self._known.get(code)
        if k is None:
            k = self._known[code] = code.co_filename.startswith(self.prefix)
        if not k:
            return self.mon.DISABLE
        tid = threading.get_ident()
        with self.lock:
            if self.last_thread is not None and self.last_thread[0] != tid:
                self.switches += 1
                if len(self.signatures) < 50000:
                    self.signatures.add((self.last_thread[1], "%s:%d" % (os.path.basename(code.co_filename), line)))
            self.last_thread = (tid, "%s:%d" % (os.path.basename(code.co_filename), line))
            # shared, process-wide state is where a hand-off matters: yield much more often inside those modules
            hot = code.co_filename.endswith(("_trie/py.py", "_trie/_base.py", "_utils.py")) or code.co_name in ("charsUntil", "getTreeBuilder", "getTreeWalker")
            doit = self.rng.random() < (0.5 if hot else 0.02)
            if doit:
                self.injections += 1
        if doit:
            time.sleep(0)

    def start(self):
        m = self.mon
        m.use_tool_id(self.TOOL, "vf-yield")
        m.register_callback(self.TOOL, m.events.LINE, self._line)
        m.set_events(self.TOOL, m.events.LINE)

    def stop(self):
        self.mon.set_events(self.TOOL, 0)
        self.mon.free_tool_id(self.TOOL)


def thread_phase(ctx, nthreads=8, per_thread=12):
    rng = ctx.rng("threads", ctx.i)
    plans = []
    for t in range(nthreads):
        kind = ("etree-full", "dom")[t % 2]
        hist = []
        for j in range(per_thread):
            hist += gen_history(rng, False)[:2]
            # entity-heavy documents: every thread walks the shared entity trie with different prefixes
            names = [rng.choice(ENTITY_NAMES) for _ in range(rng.randint(3, 8))]
            hist.append({"op": "frag", "doc": "".join("&%s %s=x " % (nm, nm[:2]) for nm in names) + "<a href='?a=1&%s&b=2'>" % names[0],
                         "scripting": False, "container": "div", "fault": None})
        plans.append((kind, hist))
    # expected results sequentially, on fresh objects, before any thread runs
    # odd-numbered threads go through the module-level functions (no parser object of their own), builder "etree"/"dom"
    def mk(t, kind):
        return ModuleDoor(kind) if t % 4 in (2, 3) else new_parser(kind, False)
    plans = [(("etree" if (t % 4 in (2, 3) and kind != "dom") else kind), hist) for t, (kind, hist) in enumerate(plans)]
    expected = [[do_call(mk(t, kind), op, kind) for op in hist] for t, (kind, hist) in enumerate(plans)]
    results = [None] * nthreads
    inj = YieldInjector("%d/%d" % (ctx.seed, ctx.i))
    old = sys.getswitchinterval()
    sys.setswitchinterval(1e-6)
    inj.start()
    try:
        def worker(t):
            kind, hist = plans[t]
            shared = mk(t, kind)
            results[t] = [do_call(shared, op, kind) for op in hist]
        ths = [threading.Thread(target=worker, args=(t,)) for t in range(nthreads)]
        for th in ths:
            th.start()
        for th in ths:
            th.join(300)
    finally:
        inj.stop()
        sys.setswitchinterval(old)
    ctx.count("thread_yield_injections", inj.injections)
    ctx.count("thread_context_switches_inside_library", inj.switches)
    ctx.count("thread_distinct_switch_signatures", len(inj.signatures))
    for t in range(nthreads):
        if results[t] is None:
            ctx.inconc("a worker thread did not finish within the watchdog")
            continue
        for j, (g, e) in enumerate(zip(results[t], expected[t])):
            ctx.count("thread_calls_compared")
            if g != e:
                kind, hist = plans[t]
                ctx.violation("thread-result-differs", {"ops": [dict(o, doc=common.jsonable(o["doc"])) for o in hist[:j + 1]],
                                                        "builder": kind, "strict": False, "threads": True},
                              "thread %d call %d (%r): sequential %s, concurrent %s" % (
                                  t, j, short(repr(hist[j]["doc"]), 50), short(repr(e), 200), short(repr(g), 200)))
                return


def shard(ctx):
    # 1. fault enumeration: every read position of every pool document, then a second clean parse on the same object
    k = 0
    for kind in ("etree-full", "dom"):
        for d in POOL:
            if not isinstance(d, str):
                continue
            nreads = len(d) // 4 + 2
            for kf in range(nreads):
                k += 1
                if not ctx.mine(k):
                    continue
                ops = [{"op": "parse", "doc": d, "scripting": False, "container": "div", "fault": kf},
                       {"op": "parse", "doc": "<p>next</p>", "scripting": False, "container": "div", "fault": None},
                       {"op": "frag", "doc": "<td>n", "scripting": False, "container": "tr", "fault": None}]
                judge_history(ctx, ops, kind, False)
                ctx.count("fault_enumeration_histories")
    # 2. strict abort at the first error of every pool document, followed by clean calls
    for kind in ("etree-full", "dom"):
        for d in POOL + BYTES_POOL:
            for nxt in ("<p>next</p>", "<table><tr><td>n", "<pre>\nz", "x"):
                k += 1
                if not ctx.mine(k):
                    continue
                ops = [{"op": "parse", "doc": d, "scripting": False, "container": "div", "fault": None},
                       {"op": "parse", "doc": nxt, "scripting": False, "container": "div", "fault": None},
                       {"op": "frag", "doc": nxt, "scripting": False, "container": "pre", "fault": None}]
                judge_history(ctx, ops, kind, True)
                ctx.count("strict_abort_histories")
    # 3. random histories
    n, idx = 0, ctx.i
    limit = (16000 if ctx.tier == "quick" else 800000) // ctx.n
    t_end = time.time() + ctx.time_left() * 0.6
    while n < limit and time.time() < t_end:
        rng = ctx.rng("hist", idx)
        idx += ctx.n
        n += 1
        strict = rng.random() < 0.35
        kind = rng.choice(["etree", "etree-full", "dom"])
        ops = gen_history(rng, strict)
        judge_history(ctx, ops, kind, strict)
        if n % 5 == 0:
            judge_serializer(ctx, rng)
        if n <= 2 and ctx.i == 0:
            ctx.sample({"ops": [dict(o, doc=short(repr(o["doc"]), 80)) for o in ops], "builder": kind, "strict": strict})
    # 4. fresh interpreters (sample)
    for j in range(6 if ctx.tier == "quick" else 60):
        judge_fresh(ctx, ctx.rng("fresh", ctx.i * 1000 + j))
    # 4b. process-wide factory caches
    for j in range(1 if ctx.tier == "quick" else 5):
        judge_factories(ctx, ctx.rng("factories", ctx.i * 100 + j))
    # 4c. process-wide state: directed (earlier call, later call) pairs against a fresh interpreter
    mine = [pr for k2, pr in enumerate(PROCESS_PAIRS) if (k2 % ctx.n) == ctx.i % max(1, min(ctx.n, len(PROCESS_PAIRS)))]
    if ctx.n > len(PROCESS_PAIRS):
        mine = [PROCESS_PAIRS[ctx.i]] if ctx.i < len(PROCESS_PAIRS) else []
    judge_process_state(ctx, mine)
    # 5. threads
    for rep in range(1 if ctx.tier == "quick" else 10):
        thread_phase(ctx)


def replay(ctx, case):
    if "process_pair" in case:
        w, a, b = case["process_pair"]
        judge_process_state(ctx, [(w, common.unjson(a) if isinstance(a, dict) else a, common.unjson(b) if isinstance(b, dict) else b)])
        return
    if "factory_order" in case:
        import random
        judge_factories(ctx, random.Random(0))
        return
    if "serializer_docs" in case:
        ctx.inconc("serializer histories are replayed by re-running the shard with the same seed")
        return
    ops = [dict(o, doc=common.unjson(o["doc"])) for o in case["ops"]]
    if case.get("fresh_interpreter"):
        shared = new_parser(case["builder"], case["strict"])
        for j, op in enumerate(ops):
            got = do_call(shared, op, case["builder"])
        exp = fresh_interpreter(ops[-1], case["builder"], case["strict"])
        if json.loads(json.dumps(common.jsonable(got))) != exp:
            ctx.violation("differs-from-fresh-interpreter", case, "reproduced")
        return
    judge_history(ctx, ops, case["builder"], case["strict"])


# ------------------------------------------------------------------ process-wide factory caches
FACTORY_CONFIGS = [["builder", "etree", {}], ["builder", "etree", {"fullTree": True}], ["builder", "etree", {"fullTree": False}],
                   ["builder", "dom", {}], ["walker", "etree", {}], ["walker", "dom", {}]]
FACTORY_DOC = "<!DOCTYPE html><!--c--><p id=a>x<b>y</p>z"
FACTORY_SNIPPET = r"""
import sys, json
sys.path.insert(0, %(verif)r)
from vf import common
common.import_repo()
from vf.props import c12
cfg = json.loads(sys.stdin.read())
print(json.dumps(common.jsonable(c12.factory_call(cfg))))
"""


def factory_call(cfg):
    """One call of the module-level factory with exactly these arguments, used on a fixed document; -> description."""
    from html5lib import treebuilders, treewalkers, html5parser
    what, name, kw = cfg
    if what == "builder":
        tb = treebuilders.getTreeBuilder(name, **kw)
        t = html5parser.HTMLParser(tb).parse(FACTORY_DOC)
        flat = canon.canon_dom(t) if name == "dom" else canon.canon_etree(t)
        return [type(t).__name__, str(getattr(t, "tag", getattr(t, "nodeName", None))), flat]
    W = treewalkers.getTreeWalker(name, **kw)
    tb = treebuilders.getTreeBuilder("dom" if name == "dom" else "etree")
    t = html5parser.HTMLParser(tb).parse(FACTORY_DOC)
    return [W.__module__.split(".")[-1], [sorted((k, repr(v)) for k, v in tok.items()) for tok in W(t)]]


def judge_factories(ctx, rng):
    """The module factories (getTreeBuilder / getTreeWalker) cache what they build, process-wide: after any history of
    calls with other arguments, a call must still return what it returns as the only call of a fresh interpreter."""
    order = list(FACTORY_CONFIGS) * 2
    rng.shuffle(order)
    env = dict(os.environ, PYTHONHASHSEED="1", PYTHONDONTWRITEBYTECODE="1")
    for cfg in order:
        key = json.dumps(cfg, sort_keys=True)
        if key not in _FACTORY_EXPECTED:
            p = subprocess.run([sys.executable, "-c", FACTORY_SNIPPET % {"verif": common.VERIF_DIR}], input=json.dumps(cfg),
                               capture_output=True, text=True, timeout=120, env=env)
            if p.returncode != 0:
                raise common.Inconclusive("fresh interpreter failed: " + p.stderr[-300:])
            _FACTORY_EXPECTED[key] = json.loads(p.stdout)
            ctx.count("factory_fresh_interpreter_calls")
        got = json.loads(json.dumps(common.jsonable(factory_call(cfg))))
        ctx.count("factory_calls_compared")
        if got != _FACTORY_EXPECTED[key]:
            ctx.violation("factory-result-depends-on-earlier-calls", {"factory_order": order, "at": cfg},
                          "%s(%r, **%r) after other factory calls gives %s; alone in a fresh interpreter %s" % (
                              cfg[0], cfg[1], cfg[2], short(repr(got), 200), short(repr(_FACTORY_EXPECTED[key]), 200)))
            return


_FACTORY_EXPECTED = {}

# ------------------------------------------------------------------ process-wide state poisoned by an EARLIER, unrelated call
PROCESS_PAIRS = [
    ("parse", "<svg>\x00y", "<p>a\x00b"), ("parse", "<math><mi>x</mi>\x00", "<table>\x00x"), ("parse", "<svg><![CDATA[\x00]]>", "<select><option>o\x00p"),
    ("parse", "<svg><g>\x00\x00", "\x00"), ("parse", "<table>foo&bar;<svg>\x00", "<pre>\n\x00x"), ("parse", "<p>&notit;&amp", "<p>&notin;&ampere"),
    ("ser", ["<a href=/p/q title=a\xa0b>x", {"quote_attr_values": "spec"}], ["<a href=/p/q title=a\xa0b>y", {}]),
    ("ser", ["<a href=/r/s class=c\u3000d>x", {}], ["<a href=/r/s class=c\u3000d>y", {"quote_attr_values": "spec"}]),
    ("ser", ["<p title='a b'>x", {"quote_char": "'"}], ["<p title='a b'>y", {}]),
    ("ser", ["<input disabled=disabled>", {"minimize_boolean_attributes": False}], ["<input disabled=disabled>", {}]),
    ("ser", ["<p>caf\xe9 &lt;", {"encoding": "ascii"}], ["<p>caf\xe9 &lt;", {"encoding": "koi8-r"}]),
    ("ser", ["<pre> a  b </pre> c  d", {"strip_whitespace": True}], ["<pre> a  b </pre> c  d", {}]),
]
PROCESS_SNIPPET = r"""
import sys, json
sys.path.insert(0, %(verif)r)
from vf import common
common.import_repo()
from vf.props import c12
print(json.dumps(common.jsonable(c12.process_call(json.loads(sys.stdin.read())))))
"""


def process_call(spec):
    from .. import h5
    from html5lib import serializer
    what, arg = spec
    if what == "parse":
        return do_call(new_parser("etree-full", False), {"op": "parse", "doc": arg, "scripting": False, "container": "div", "fault": None}, "etree-full")
    doc, opts = arg
    opts = dict(opts)
    enc = opts.pop("encoding", None)
    tree = h5.parse_doc(doc)[2]
    s = serializer.HTMLSerializer(**opts)
    out = s.render(h5.walker("etree")(tree), enc) if enc else s.render(h5.walker("etree")(tree))
    return ["ok", out.decode("latin-1") if isinstance(out, bytes) else out, list(s.errors)]


def judge_process_state(ctx, pairs):
    """B after A (fresh objects each, same process) must equal B as the only call of a fresh interpreter."""
    env = dict(os.environ, PYTHONHASHSEED="1", PYTHONDONTWRITEBYTECODE="1")
    for what, a, b in pairs:
        process_call([what, a])
        got = json.loads(json.dumps(common.jsonable(process_call([what, b]))))
        p = subprocess.run([sys.executable, "-c", PROCESS_SNIPPET % {"verif": common.VERIF_DIR}], input=json.dumps([what, b]),
                           capture_output=True, text=True, timeout=120, env=env)
        if p.returncode != 0:
            raise common.Inconclusive("fresh interpreter failed: " + p.stderr[-300:])
        exp = json.loads(p.stdout)
        ctx.count("process_state_pairs_compared")
        if got != exp:
            ctx.violation("result-depends-on-an-earlier-unrelated-call", {"process_pair": [what, common.jsonable(a), common.jsonable(b)]},
                          "%s of %r after %r: %s; alone in a fresh interpreter: %s" % (what, b, a, short(repr(got), 200), short(repr(exp), 200)))
            return


def finalize(m, v):
    c = m["counters"]
    if c.get("process_state_pairs_compared", 0) < min(12, len(PROCESS_PAIRS)):
        m["inconclusive"].append("process-state clause compared fewer pairs than listed (%d)" % c.get("process_state_pairs_compared", 0))
    if c.get("factory_calls_compared", 0) < 12:
        m["inconclusive"].append("module factory clause compared fewer than 12 calls")
    if c.get("read_faults_injected", 0) < 500:
        m["inconclusive"].append("fewer than 500 read faults injected")
    if c.get("aborts:ParseError", 0) < 500:
        m["inconclusive"].append("fewer than 500 strict-mode aborts")
    if c.get("fresh_interpreter_replays", 0) < 20:
        m["inconclusive"].append("fewer than 20 fresh-interpreter replays")
    if c.get("thread_context_switches_inside_library", 0) < 2000:
        m["inconclusive"].append("fewer than 2000 context switches inside library code (%d)" % c.get("thread_context_switches_inside_library", 0))
    if c.get("serializer_calls_compared", 0) < 500:
        m["inconclusive"].append("fewer than 500 serializer calls compared")
    return {}
