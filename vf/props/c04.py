"""C04 - the tree does not depend on the tree builder: N-version monitor + node-class invariants."""
import time

from .. import gen, canon
from ..common import short

LEVEL = "exploration"
TECHNIQUE = ("runtime monitoring: N-version differential (etree root form, etree fullTree, dom x namespacing) + class "
             "invariants on the real node classes checked after every tree primitive")
LEVEL_TEXT = ("Held on the executions produced: for every generated input the six builder configurations gave the same "
              "canonical tree (modulo the stated namespace exception) in document and fragment mode, and the node-class "
              "invariants (shadow child list == real children, parent pointers) held after every primitive call. "
              "Exploration aimed at foster parenting x adoption agency x fragment extraction; not proof.")
BUDGET_S = {"quick": 40, "thorough": 600}
RULE = ("cases = (input, document|fragment+container, scripting) from a foster-parenting x adoption-agency generator, "
        "structure-aware misnesting and soup; each case is parsed with 6 builder configurations whose canonical "
        "trees (direct traversal) must coincide; M-NODE invariants are evaluated after every "
        "appendChild/insertBefore/removeChild/reparentChildren/insertText on the real node classes. "
        "distinct_nontrivial = distinct cases in which at least one of insertBefore/removeChild/reparentChildren/"
        "cloneNode/insertText(before) was called (i.e. the backends' separate primitives really ran).")
ASSUMPTIONS = [
    "adjacent text nodes are merged before comparison (an ElementTree cannot represent the distinction)",
    "canonical trees are read by direct traversal of ElementTree / minidom objects (trusted: xml.etree, xml.dom.minidom)",
    "attribute keys are compared in Clark form '{ns}local' for namespaced attributes",
]

_prim = {}   # primitive name -> calls in the current case
_viol = []   # invariant violations in the current case
_installed = False


def _count(name):
    _prim[name] = _prim.get(name, 0) + 1


def _et_check(self, where):
    real = list(self._element)
    shadow = [c._element for c in self._childNodes]
    if len(real) != len(shadow) or any(a is not b for a, b in zip(real, shadow)):
        _viol.append("etree shadow child list != real children after %s on <%s>: shadow=%d real=%d"
                     % (where, getattr(self, "_name", "?"), len(shadow), len(real)))
        return
    for c in self._childNodes:
        if c.parent is not self:
            _viol.append("etree child.parent is not the node holding it after %s on <%s>" % (where, self._name))
            return


def install_monitors():
    """M-NODE: wrap the primitives of the real node classes (the same class objects the builders use)."""
    global _installed
    if _installed:
        return
    _installed = True
    from .. import h5
    for kind in ("etree", "etree-full"):
        E = h5.tb(kind).elementClass

        def wrap(cls, name, check_new_parent=False):
            orig = getattr(cls, name)

            def w(self, *a, **k):
                key = name
                if name == "insertText" and (len(a) > 1 and a[1] is not None or k.get("insertBefore") is not None):
                    key = "insertText(before)"
                _count("etree." + key)
                r = orig(self, *a, **k)
                _et_check(self, name)
                if name == "reparentChildren":
                    _et_check(a[0], name + "(newParent)")
                return r
            w.__name__ = name
            setattr(cls, name, w)
        for nm in ("appendChild", "insertBefore", "removeChild", "reparentChildren", "insertText", "cloneNode"):
            wrap(E, nm)
    D = h5.tb("dom")
    # NodeBuilder is the class of any element wrapper the dom builder makes
    probe = D(True)
    NB = type(probe.elementClass("x", None))

    def wrapd(name):
        orig = getattr(NB, name)

        def w(self, *a, **k):
            key = name
            if name == "insertText" and (len(a) > 1 and a[1] is not None or k.get("insertBefore") is not None):
                key = "insertText(before)"
            _count("dom." + key)
            r = orig(self, *a, **k)
            if name in ("appendChild", "insertBefore"):
                node = a[0]
                if node.element.parentNode is not self.element or node.parent is not self:
                    _viol.append("dom %s: child.parent/element.parentNode disagree" % name)
            elif name == "removeChild":
                node = a[0]
                if node.element.parentNode is self.element:
                    _viol.append("dom removeChild left the child attached")
            elif name == "reparentChildren":
                if self.element.hasChildNodes():
                    _viol.append("dom reparentChildren left children behind")
            return r
        w.__name__ = name
        setattr(NB, name, w)
    for nm in ("appendChild", "insertBefore", "removeChild", "reparentChildren", "insertText", "cloneNode"):
        wrapd(nm)


def foster_aaa(rng):
    """Directed generator: formatting/block openers, a table with foster-parented content, permuted closers."""
    F = ["b", "i", "a", "em", "nobr", "font", "u"]
    B = ["div", "p", "ul", "li", "blockquote", "h1", "section", "form", "button", "marquee", "object"]
    out, op = [], []
    for _ in range(rng.randint(0, 3)):
        t = rng.choice(F + B)
        out.append("<%s>" % t)
        op.append(t)
    tbl = rng.choice(["<table>", "<table><tr>", "<table><tbody>", "<table><tr><td>", "<table><caption>",
                      "<table><colgroup>", "<select>", "<frameset>", "<svg>", "<table><table>"])
    out.append(tbl)
    for _ in range(rng.randint(1, 6)):
        r = rng.random()
        if r < 0.35:
            t = rng.choice(F + B)
            out.append("<%s%s>" % (t, rng.choice(["", "", " x=1", " id=a class=b"])))
            op.append(t)
        elif r < 0.6:
            out.append(rng.choice(["x", "yy", " ", "\n", "a b", "&amp;", "\x00x"]))
        elif r < 0.75:
            out.append(rng.choice(["<tr>", "<td>", "<tbody>", "</table>", "<table>", "</td>", "</tr>", "<caption>",
                                   "<col>", "<input type=hidden>", "<input>", "<form>", "<script>s</script>",
                                   "<style>s</style>", "<!--c-->", "<select>", "<option>", "</select>"]))
        elif op:
            out.append("</%s>" % op.pop(rng.randrange(len(op))))
    rng.shuffle(op)
    for t in op[:rng.randint(0, len(op))]:
        out.append("</%s>" % t)
    if rng.random() < 0.5:
        out.append("</table>")
    out.append(rng.choice(["", "z", "<p>z", "</b>z", "<b>z"]))
    return "".join(out)


CONFIGS = [("etree", True), ("etree-full", True), ("dom", True), ("etree", False), ("etree-full", False), ("dom", False)]


def html_subtree(flat):
    """The html element subtree of a document canon (events of the first top-level element)."""
    d = 0
    start = None
    for i, e in enumerate(flat):
        if e[0] == "S":
            if d == 0 and start is None:
                start = i
            d += 1
        elif e[0] == "E":
            d -= 1
            if d == 0 and start is not None:
                return flat[start:i + 1]
    return None


def minidom_collision(flat):
    """Normaliser for the listed finding dom-attr-localname-collision: minidom indexes un-namespaced attributes
    a second time by the part of the name after the first ':'; setting 'lang' therefore evicts 'xml:lang' (and
    vice versa).  Rewrites the expected tree the way that mechanism does, and nothing else."""
    out = []
    for e in flat:
        if e[0] == "D" and ":" in e[1]:
            # same family: minidom's DocumentType keeps only the part of the name after the first ':'
            out.append(("D", e[1].split(":", 1)[1], e[2], e[3]))
            continue
        if e[0] != "S" or len(e[3]) < 2:
            out.append(e)
            continue
        cur = []
        for k, v in e[3]:
            if k[:1] == "{" and "}" in k:
                nk = (k[1:k.index("}")], k[k.index("}") + 1:])
            else:
                nk = (None, k.split(":", 1)[-1])
            cur = [(k2, v2, nk2) for (k2, v2, nk2) in cur if not (nk2 == nk and k2 != k)]
            cur.append((k, v, nk))
        out.append(("S", e[1], e[2], tuple((k, v) for k, v, _ in cur)))
    return out


def run_case(ctx, case):
    from .. import h5
    install_monitors()
    data, frag, cont, scr = case["input"], case["frag"], case.get("container"), case["scripting"]
    _prim.clear()
    del _viol[:]
    res = {}
    for kind, ns in CONFIGS:
        try:
            if frag:
                if kind == "etree-full":
                    continue
                flat, p, tree = h5.parse_frag(data, container=cont, kind=kind, ns=ns, scripting=scr)
            else:
                flat, p, tree = h5.parse_doc(data, kind=kind, ns=ns, scripting=scr)
        except Exception as e:
            # one configuration gives no tree at all: the configurations differ (and C03 is violated as well)
            ctx.count("parse_raised")
            ctx.add("parse_exceptions", type(e).__name__)
            ctx.case([data, frag, cont, scr], nontrivial=True)
            ctx.violation("parse-raised:%s:%s" % (kind, type(e).__name__), case, "%s ns=%s: %s: %s" % (kind, ns, type(e).__name__, str(e)[:200]))
            return
        res[(kind, ns)] = flat
    # the module-level convenience functions (html5lib.parse / parseFragment, builder given by name) are the same
    # configurations through another door: every 4th case
    if len(data) % 4 == 0:
        import html5lib
        for kind, ns in (("etree", True), ("dom", False), ("dom", True), ("etree", False)):
            try:
                if frag:
                    t = html5lib.parseFragment(data, container=cont, treebuilder=kind, namespaceHTMLElements=ns, scripting=scr)
                else:
                    t = html5lib.parse(data, treebuilder=kind, namespaceHTMLElements=ns, scripting=scr)
                f2 = h5.canon_of(t, kind)
            except Exception as e:
                ctx.violation("convenience-api-raised:" + type(e).__name__, case, "%s ns=%s: %r" % (kind, ns, e))
                return
            ctx.count("convenience_api_compared")
            if f2 != res[(kind, ns)]:
                ctx.violation("convenience-api-differs:%s%s" % (kind, "" if ns else "-nons"), case,
                              "html5lib.parse%s(treebuilder=%r, namespaceHTMLElements=%r): %s" % (
                                  "Fragment" if frag else "", kind, ns, canon.diff_text(res[(kind, ns)], f2, "HTMLParser", "module function")))
                return
    # documented defaults: no keyword at all = etree builder, namespaced HTML elements, scripting off, container "div"
    if len(data) % 4 == 1 and not scr and (not frag or cont == "div"):
        import html5lib
        try:
            t = html5lib.parseFragment(data) if frag else html5lib.parse(data)
            ctx.count("defaults_compared")
            if h5.canon_of(t, "etree") != res[("etree", True)]:
                ctx.violation("defaults-differ-from-documented", case, "html5lib.parse%s(data) with no keyword differs from the explicit defaults: %s" % (
                    "Fragment" if frag else "", canon.diff_text(res[("etree", True)], h5.canon_of(t, "etree"), "explicit", "defaults")))
                return
        except Exception as e:
            ctx.violation("convenience-api-raised:" + type(e).__name__, case, "no-keyword call: %r" % (e,))
            return
    interesting = any(k.split(".")[1] in ("insertBefore", "removeChild", "reparentChildren", "cloneNode",
                                          "insertText(before)") for k in _prim)
    ctx.case([data, frag, cont, scr], nontrivial=interesting)
    for k, v in _prim.items():
        ctx.count("prim:" + k, v)
    ctx.count("invariant_evaluations", sum(v for k, v in _prim.items() if not k.endswith("cloneNode")))
    if _viol:
        ctx.violation("node-invariant:" + _viol[0].split(" after ")[0][:50], case, _viol[0])
    base_key = ("etree", True) if frag else ("etree-full", True)
    base = res[base_key]
    for (kind, ns), flat in res.items():
        exp = base
        if kind == "etree" and not frag:
            exp = html_subtree(base)
            if exp is None:
                ctx.violation("no-html-subtree", case, canon.compact(base)[:500])
                return
        if not ns:
            exp = canon.strip_html_ns(exp)
        if flat != exp and kind == "dom":
            exp2 = minidom_collision(exp)
            if exp2 != flat and len(exp2) == len(flat):
                # the eviction happens where attributes are set in bulk (element creation); attributes merged one by one
                # into an existing html/body element (a second <html>/<body> tag) are not affected: per element, either
                # reading may apply
                exp2 = [b if b == c else a for a, b, c in zip(exp, exp2, flat)]
            if exp2 == flat:
                ctx.known_finding("dom-attr-localname-collision", case,
                                  "dom builder drops an attribute: " + canon.diff_text(exp, flat, "etree", "dom"))
                continue
        if flat != exp:
            ctx.violation("builders-differ:%s-vs-%s%s" % (base_key[0], kind, "" if ns else "-nons"), case,
                          "%s ns=%s: %s" % (kind, ns, canon.diff_text(exp, flat, "etree", kind)))
            return


def shard(ctx):
    # directed seeds first (deterministic)
    seeds = ["<b><div><table><i>x</table></b>", "<table><b>x</table>", "<a><table><a>", "<table>x<b>y</table>z",
             "<b><table><p>x</b>y</table>", "<div><table> <i>x</i></table></div>", "<table><tr><td><b>x</table>y</b>",
             "<p><table></p>x", "<table><select><b>x</table>", "<frameset></frameset><noframes>x",
             "<body><frameset>", "<!--a--><html><!--b--><head><!--c--></head> <!--d--><body></body> <!--e--></html> <!--f-->",
             "<b><i><table><u>x<tr><td></i></b>y", "<table><b><tr><td>aaa</td></tr>bbb</table>ccc",
             "<a><svg><table><a>x", "<math><table><mi>x", "<table><tr><th><form><table></form>",
             "<b id=1><b id=1><b id=1><b id=1><table><x>y</table>", "<svg xlink:href=a xml:lang=b><table><g xlink:href=c>",
             "x<table>y<tr>z<td>w</table>v", "<ul><li><table><li>x</table></ul>",
             # an adjusted foreign attribute next to its un-prefixed namesake, both orders, SVG and MathML
             "<svg xlink:href=a href=b>x", "<svg href=b xlink:href=a>x", "<math xml:lang=a lang=b>x", "<svg lang=b xml:lang=a xml:space=c space=d>",
             "<svg xmlns:xlink=a xlink=b>", "<svg><a xlink:title=t title=u xlink:href=h href=i>x</a>", "<math><mi xlink:href=a href=b xml:base=c base=d>",
             "<svg xmlns=a:b xmlns:xlink=c xlink:xlink=d>", "<p>x<body class=k id=i><html lang=l data-a=b>", "<b><p class=x id=y>t</b>u",
             "<a href=1><div title=t class=c><a href=2>x", "<table><b class=q><tr><td>x</table>y"]
    k = 0
    for s in seeds:
        for frag, cont in ((False, None), (True, "div"), (True, "table"), (True, "b")):
            k += 1
            if ctx.mine(k):
                run_case(ctx, {"input": s, "frag": frag, "container": cont, "scripting": False})
                ctx.count("directed_cases")
    # every short token sequence through all six builder configurations (bounded-exhaustive)
    for q in gen.token_sequences(ctx, 2, 3, 0.4):
        run_case(ctx, {"input": q, "frag": False, "container": None, "scripting": False})
        run_case(ctx, {"input": q, "frag": True, "container": ("div", "table", "tr", "select")[len(q) % 4], "scripting": False})
        ctx.count("sequence_cases")
    n = 0
    idx = ctx.i
    limit = (160000 if ctx.tier == "quick" else 3000000) // ctx.n
    t_end = time.time() + ctx.time_left()
    while n < limit and time.time() < t_end:
        rng = ctx.rng("rand", idx)
        idx += ctx.n
        n += 1
        r = rng.random()
        if r < 0.5:
            data = foster_aaa(rng)
        elif r < 0.8:
            data = gen.nesting(rng)
        else:
            data = gen.soup(rng, 25)
        frag = rng.random() < 0.35
        case = {"input": data, "frag": frag, "container": rng.choice(gen.CONTEXTS) if frag else None,
                "scripting": rng.random() < 0.3}
        run_case(ctx, case)
        if n <= 3 and ctx.i == 0:
            ctx.sample(case)


def replay(ctx, case):
    run_case(ctx, case)


def finalize(m, v):
    from .. import gen as _gen
    _gen.sequences_inconclusive(m)
    c = m["counters"]
    scale = 1.0
    for nm, floor in (("prim:etree.insertBefore", 500), ("prim:dom.insertBefore", 500), ("prim:etree.removeChild", 500),
                      ("prim:dom.removeChild", 500), ("prim:etree.reparentChildren", 500),
                      ("prim:dom.reparentChildren", 500), ("prim:etree.cloneNode", 500), ("prim:dom.cloneNode", 500),
                      ("prim:etree.insertText(before)", 300), ("prim:dom.insertText(before)", 300)):
        if c.get(nm, 0) < floor * scale:
            m["inconclusive"].append("%s called only %d times (< %d): M-NODE saw too little" % (nm, c.get(nm, 0), floor))
    if c.get("invariant_evaluations", 0) == 0:
        m["inconclusive"].append("node invariants were evaluated 0 times")
    return {}
