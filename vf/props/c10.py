"""C10 - sanitized markup stays safe when parsed again (composition monitor)."""
import time
import warnings

from .. import gen, canon
from ..ref import urlcss
from ..common import short
from . import c09
from .c09 import gen_url, CSS_VALUES, multi_uri_input

_URI_LOCAL_NAMES = frozenset(ln for (_, ln) in c09.PINNED_URI_ATTRS)

LEVEL = "exploration"
TECHNIQUE = ("runtime monitoring of the composition parse -> sanitize -> serialize -> re-parse: every node of the re-parsed "
             "tree is judged by the allow-list/URL/CSS gates and against the log of tags the sanitizer let through "
             "(recorded by a wrapper on sanitizer.Filter.allowed_token)")
LEVEL_TEXT = ("Held on the executions produced: for every generated input (mutation-XSS shaped: raw-text and RCDATA "
              "elements, noscript under both scripting settings, foreign content with integration points, table/select/"
              "form re-nesting, comments, CDATA, markup in escaped form at every text and attribute position), every "
              "sampled serializer option set and every re-parse mode, the re-parsed tree contained no comment, no element "
              "or attribute outside the allow-lists, no forbidden URL scheme, and no element whose name the sanitizer had "
              "not let through. Exploration.")
BUDGET_S = {"quick": 50, "thorough": 900}
RULE = ("cases = (input, serializer options, re-parse mode in {document, fragment in div/body/p/table/tr/td/select/"
        "svg-less contexts}, scripting); distinct_nontrivial = distinct cases in which the sanitizer escaped or dropped at "
        "least one token (so there was something that could come back).")
ASSUMPTIONS = [
    "default allow-lists of html5lib.filters.sanitizer (sanitize=True takes no custom lists through the serializer)",
    "'corresponds to a tag the sanitizer let through' is judged by element name (set inclusion): the parser legitimately clones formatting elements, so multiplicity is not compared; attribute-less html/head/body and parser-implied tbody/tr/colgroup are exempt",
    "URL gate = R-url of C09 on the re-parsed attribute values",
]

_let_through = []
_escaped = [0]
_installed = [False]


def install():
    if _installed[0]:
        return
    _installed[0] = True
    from html5lib.filters import sanitizer as S
    orig_a = S.Filter.allowed_token
    orig_d = S.Filter.disallowed_token

    def allowed_token(self, token):
        r = orig_a(self, token)
        if r is not None and r.get("type") in ("StartTag", "EmptyTag"):
            _let_through.append(r["name"])
        return r

    def disallowed_token(self, token):
        _escaped[0] += 1
        return orig_d(self, token)
    S.Filter.allowed_token = allowed_token
    S.Filter.disallowed_token = disallowed_token


PAYLOADS = ["<img src=x onerror=alert(1)>", "<script>alert(1)</script>", "</style><img src=x onerror=alert(1)>", "</noscript><img onerror=x>",
            "</title><script>x</script>", "--><script>x</script><!--", "]]><script>x</script>", "</textarea><script>x</script>",
            "<iframe src=javascript:alert(1)>", "<a href=javascript:alert(1)>x</a>", "</svg><script>x</script>", "</math><img onerror=x>",
            "<svg onload=alert(1)>", "\"><img onerror=x>", "'><img onerror=x>", "`><img onerror=x>", "</p><script>x</script>",
            "<!--", "<![CDATA[", "</xmp><script>x</script>", "</plaintext><script>x", "<style>@import 'x'</style>",
            # both kinds of quotes in one value
            "x' onmouseover='alert(1)' \"", "\"'><img onerror=x>", "' \" onfocus=alert(1) x='", "a\"b'c onclick=alert(1) d='e\"f"]


def esc(s, level):
    for _ in range(level):
        s = s.replace("&", "&amp;").replace("<", "&lt;").replace(">", "&gt;").replace('"', "&quot;")
    return s


RAWISH = ["style", "script", "xmp", "iframe", "noembed", "noframes", "noscript", "plaintext", "title", "textarea", "listing", "pre"]
FOREIGN_WRAPS = ["<svg>%s</svg>", "<math>%s</math>", "<svg><foreignObject>%s</foreignObject></svg>", "<svg><desc>%s</desc></svg>",
                 "<svg><title>%s</title></svg>", "<math><mi>%s</mi></math>", "<math><mtext>%s</mtext></math>",
                 "<math><annotation-xml encoding=text/html>%s</annotation-xml></math>", "<math><annotation-xml>%s</annotation-xml></math>",
                 "<svg><style>%s</style></svg>", "<svg><script>%s</script></svg>", "<math><style>%s</style></math>",
                 "<svg><a xlink:href=\"%s\">x</a></svg>", "<svg><![CDATA[%s]]></svg>", "<math><mglyph>%s</mglyph></math>",
                 "<math><mtext><table><mglyph><style>%s</style>", "<form><math><mtext></form><form><mglyph><style></math>%s"]
HTML_WRAPS = ["%s", "<div>%s</div>", "<p>%s", "<table>%s</table>", "<table><tr><td>%s", "<select>%s</select>", "<select><option>%s",
              "<form>%s</form>", "<!--%s-->", "<a title=\"%s\">x</a>", "<img alt='%s'>", "<p title=%s>", "<b><p>%s</b>x", "<a><table><a>%s",
              "<ul><li>%s<li>", "<button>%s", "<details><summary>%s", "<template>%s</template>", "<font color=\"%s\">", "<a href=\"%s\">x"]


def mxss_input(rng):
    r0 = rng.random()
    if r0 < 0.05:
        return c09.svg_ref_input(rng)[0]
    if r0 < 0.15:
        return multi_uri_input(rng)[0] + (rng.choice(PAYLOADS) if rng.random() < 0.3 else "")
    pay = rng.choice(PAYLOADS)
    if rng.random() < 0.2:
        pay = gen_url(rng)
    lvl = rng.choice([0, 1, 1, 1, 2])
    inner = esc(pay, lvl)
    r = rng.random()
    if r < 0.35:
        t = rng.choice(RAWISH)
        s = "<%s>%s</%s>" % (t, inner, t)
        if rng.random() < 0.5:
            s = rng.choice(FOREIGN_WRAPS + HTML_WRAPS) % s if rng.random() < 0.7 else s
    elif r < 0.7:
        s = rng.choice(FOREIGN_WRAPS) % inner
    else:
        s = rng.choice(HTML_WRAPS) % inner
    if rng.random() < 0.3:
        s = rng.choice(HTML_WRAPS) % s
    if rng.random() < 0.2:
        s += gen.soup(rng, 5)
    if rng.random() < 0.06:
        # a doctype whose identifiers carry the payload (the serializer writes them between quotes of its own choice)
        q = rng.choice(["'", '"'])
        pay2 = rng.choice(PAYLOADS).replace(q, "")
        s = rng.choice(["<!DOCTYPE html PUBLIC %s%s%s>", "<!DOCTYPE html SYSTEM %s%s%s>", "<!DOCTYPE html PUBLIC 'a' %s%s%s>", "<!DOCTYPE %s%s%s>",
                        "<!DOCTYPE html PUBLIC %s%s%s 'b'>"]) % (q, pay2, q) + s
    return s


OPTS = {
    "omit_optional_tags": [True, False], "quote_attr_values": ["legacy", "spec", "always"], "escape_rcdata": [False, True],
    "strip_whitespace": [False, True], "alphabetical_attributes": [False, True], "use_trailing_solidus": [False, True],
    "space_before_trailing_solidus": [True, False], "minimize_boolean_attributes": [True, False], "escape_lt_in_attrs": [False, True],
    "quote_char": [None, "'", '"'], "use_best_quote_char": [None, None, True, False],
}
MODES = [("doc", None), ("frag", "div"), ("frag", "body"), ("frag", "p"), ("frag", "table"), ("frag", "tr"), ("frag", "td"),
         ("frag", "select"), ("frag", "span"), ("frag", "html"), ("frag", "head"), ("frag", "noscript"), ("frag", "template"), ("frag", "math"),
         ("frag", "svg")]
EXEMPT = frozenset(["html", "head", "body", "tbody", "tr", "colgroup"])


INTEGRATION = {canon.SVG: ("foreignObject", "desc", "title"), canon.MATHML: ("annotation-xml", "mi", "mo", "mn", "ms", "mtext")}


def escaped_integration_point(flat, allowed):
    """The first tree holds a foreign integration-point element that is NOT on the allow-list (so the sanitizer turned
    its tags into text) -- precondition of the listed finding."""
    for e in flat:
        if e[0] == "S" and e[1] in INTEGRATION and e[2] in INTEGRATION[e[1]] and (e[1], e[2]) not in allowed:
            return True
    return False


def judge(ctx, case):
    from .. import h5
    from html5lib import serializer
    from html5lib.filters import sanitizer as S
    install()
    data = case["input"]
    try:
        if case["src_frag"]:
            flat, p, tree = h5.parse_frag(data, container="div", scripting=case["scripting_in"])
        else:
            flat, p, tree = h5.parse_doc(data, scripting=case["scripting_in"])
    except Exception:
        ctx.count("parse_raised")
        return
    del _let_through[:]
    _escaped[0] = 0
    opts = {k: v for k, v in case["options"].items() if v is not None}
    try:
        with warnings.catch_warnings():
            warnings.simplefilter("ignore")
            out = serializer.HTMLSerializer(sanitize=True, **opts).render(h5.walker("etree")(tree))
    except Exception as e:
        toks = list(h5.walker("etree")(tree))
        if any(t["type"] == "SerializeError" for t in toks):
            ctx.count("serialize_error_token_streams_skipped")
            return
        KN = (None, canon.XLINK, canon.XML, canon.XMLNS)
        if isinstance(e, KeyError) and any(k[0] not in KN for t in toks if isinstance(t.get("data"), dict) for k in t["data"]):
            ctx.known_finding("clark-named-attribute-keyerror", case, "KeyError(%s) in the sanitizer (C09 finding)" % e)
            return
        ctx.violation("serialize-raised:" + type(e).__name__, case, "%s: %s" % (type(e).__name__, short(str(e), 200)))
        return
    let = set(_let_through)
    n_escaped = _escaped[0] + sum(1 for e in flat if e[0] == "C")
    mode, cont = case["mode"]
    try:
        if mode == "doc":
            flat2 = h5.parse_doc(out, scripting=case["scripting_out"])[0]
        else:
            flat2 = h5.parse_frag(out, container=cont, scripting=case["scripting_out"])[0]
    except Exception as e:
        ctx.count("reparse_raised")
        return
    ctx.case([data, sorted(opts.items()), mode, cont, case["scripting_in"], case["scripting_out"], case["src_frag"]],
             nontrivial=n_escaped > 0)
    ctx.count("compositions")
    ctx.add("modes_seen", "%s:%s" % (mode, cont))
    els1 = sorted(e[2] for e in flat if e[0] == "S")
    els2 = sorted(e[2] for e in flat2 if e[0] == "S")
    if els1 != els2:
        ctx.count("element_multiset_changed_by_roundtrip")
    for e in flat2:
        if e[0] == "C":
            ctx.violation("comment-reappeared", case, "comment %r in the re-parsed tree; output %s" % (e[1][:60], short(out, 400)))
            return
        if e[0] != "S":
            continue
        ns, name, attrs = e[1], e[2], e[3]
        if name in EXEMPT and not attrs and ns == canon.HTML:
            continue
        if (ns, name) not in S.allowed_elements and ns in (canon.SVG, canon.MATHML) and any((n3, name) in S.allowed_elements for n3 in (canon.HTML, canon.SVG, canon.MATHML)) \
                and name in let and escaped_integration_point(flat, S.allowed_elements):
            ctx.known_finding("escaped-integration-point-children-become-foreign", case,
                              "HTML element %s re-parsed as (%s, %s): its disallowed integration-point parent was turned into text; output %s"
                              % (name, ns.rsplit("/", 1)[-1], name, short(out, 300)))
            return
        if (ns, name) not in S.allowed_elements:
            ctx.violation("forbidden-element-reappeared:%s" % name[:20], case,
                          "element (%s, %s) in the re-parsed tree (%s/%s); output %s" % (ns, name, mode, cont, short(out, 500)))
            return
        if name not in let:
            ctx.violation("element-without-let-through-tag:%s" % name[:20], case,
                          "element %s was never let through by the sanitizer; output %s" % (name, short(out, 500)))
            return
        for k, v in attrs:
            if k[:1] == "{" and "}" in k:
                key = (k[1:k.index("}")], k[k.index("}") + 1:])
            else:
                key = (None, k)
            if key not in S.allowed_attributes and key[0] is None and any(
                    (n2, key[1]) in S.allowed_attributes for n2 in (canon.XLINK, canon.XML, canon.XMLNS)):
                ctx.known_finding("attribute-namespace-dropped", case,
                                  "attribute %s on %s: the serializer wrote a namespaced attribute by its local name; output %s"
                                  % (key[1], name, short(out, 300)))
                continue
            if key not in S.allowed_attributes:
                ctx.violation("forbidden-attribute-reappeared:%s" % key[1][:20], case,
                              "attribute %r on %s in the re-parsed tree; output %s" % (key, name, short(out, 500)))
                return
            # URI-valued attributes: the set pinned in C09 (not read from the library's own table), by local name as
            # well because the serializer writes namespaced attributes by local name
            if key in c09.PINNED_URI_ATTRS or key in S.attr_val_is_uri or key[1] in _URI_LOCAL_NAMES:
                sch = urlcss.url_scheme(v)
                if sch is not None:
                    ctx.count("uri_values_with_scheme_in_reparsed_tree")
                    if sch not in S.allowed_protocols:
                        ctx.violation("forbidden-scheme-reappeared:" + sch[:15], case,
                                      "%s=%r on %s; output %s" % (key[1], v[:60], name, short(out, 400)))
                        return
                    if sch == "data":
                        ess = urlcss.data_mime_essence(v)
                        if ess is not None and ess not in S.allowed_content_types:
                            ctx.violation("forbidden-data-type-reappeared", case, "%s=%r" % (key[1], v[:80]))
                            return
            if key in c09.PINNED_SVG_REF_ATTRS:
                for target in c09.url_references(v):
                    ctx.count("svg_url_references_in_reparsed_tree")
                    sch = urlcss.url_scheme(target)
                    if sch is not None and sch not in S.allowed_protocols:
                        ctx.violation("forbidden-scheme-reappeared-in-svg-reference:" + sch[:15], case,
                                      "%s=%r on %s; output %s" % (key[1], v[:80], name, short(out, 300)))
                        return
            if key == (None, "style"):
                why = urlcss.css_problem(v, S.allowed_css_properties, S.allowed_css_keywords, S.allowed_svg_properties)
                if why:
                    ctx.violation("style-keeps-disallowed-css", case, "style=%r: %s" % (v[:80], why))
                    return


def pick_case(rng):
    opts = {k: rng.choice(v) for k, v in OPTS.items()}
    return {"input": mxss_input(rng), "options": opts, "mode": list(rng.choice(MODES)), "scripting_in": rng.random() < 0.5,
            "scripting_out": rng.random() < 0.5, "src_frag": rng.random() < 0.6}


SEEDS = ["<a ping=\"javascript:alert(1)\" href=\"http://[::1\">x</a>", "<a href=\"javascript:alert(1)\" ping=\"http://[::1\">x</a>",
         "<a href=\"/ok\" ping=\"javascript:alert(1)\">x</a>", "<a ping=\"/ok\" href=\"javascript:alert(1)\">x</a>",
         "<textarea>&lt;/textarea&gt;&lt;img src=x onerror=alert(1)&gt;</textarea>", "<svg><style>&lt;img src=x onerror=alert(1)&gt;</style></svg>", "<noscript>&lt;/noscript&gt;&lt;img onerror=x&gt;</noscript>",
         "<math><mtext><table><mglyph><style><!--</style><img title=\"--&gt;&lt;img src=1 onerror=alert(1)&gt;\">",
         "<form><math><mtext></form><form><mglyph><style></math><img src onerror=alert(1)>", "<svg></p><style><a id=\"</style><img src=1 onerror=alert(1)>\">",
         "<textarea>&lt;/textarea&gt;&lt;script&gt;x&lt;/script&gt;</textarea>", "<title>&lt;/title&gt;&lt;script&gt;x&lt;/script&gt;</title>",
         "<a title=\"&quot;&gt;&lt;img onerror=x&gt;\">y</a>", "<p title=x`onmouseover=alert(1)>y", "<!--x--><p>y<!--[if IE]><script>x</script><![endif]-->",
         "<plaintext>&lt;script&gt;x", "<xmp>&lt;script&gt;x&lt;/script&gt;</xmp>", "<svg><title>&lt;script&gt;x&lt;/script&gt;</title></svg>",
         "<select><option>&lt;script&gt;x</select>", "<a href=\"jav&#x09;ascript:alert(1)\">x</a>", "<svg><a xlink:href=\"javascript:x\">y</a></svg>"]


def shard(ctx):
    install()
    k = 0
    for s in SEEDS:
        for mode in MODES:
            for scr in (False, True):
                for omit in (True, False):
                    k += 1
                    if ctx.mine(k):
                        judge(ctx, {"input": s, "options": {"omit_optional_tags": omit}, "mode": list(mode), "scripting_in": scr,
                                    "scripting_out": not scr if k % 3 == 0 else scr, "src_frag": True})
    n, idx = 0, ctx.i
    limit = (100000 if ctx.tier == "quick" else 4000000) // ctx.n
    t_end = time.time() + ctx.time_left()
    while n < limit and time.time() < t_end:
        rng = ctx.rng("rand", idx)
        idx += ctx.n
        n += 1
        case = pick_case(rng)
        judge(ctx, case)
        if n <= 3 and ctx.i == 0:
            ctx.sample(case)


def replay(ctx, case):
    case = dict(case, mode=tuple(case["mode"]))
    judge(ctx, case)


def finalize(m, v):
    c = m["counters"]
    if c.get("compositions", 0) < 20000:
        m["inconclusive"].append("fewer than 20000 compositions judged")
    if c.get("element_multiset_changed_by_roundtrip", 0) < 2000:
        m["inconclusive"].append("fewer than 2000 cases in which the re-parsed element multiset differs (mutation did not happen)")
    if len(m["sets"].get("modes_seen", ())) < len(MODES):
        m["inconclusive"].append("not every re-parse mode exercised")
    return {}
