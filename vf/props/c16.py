"""C16 - strict mode raises ParseError exactly when a parse error exists."""
import time

from .. import gen, conform
from ..common import short

LEVEL = "exploration"
TECHNIQUE = ("runtime monitoring: paired execution strict vs non-strict, message-table/format/position oracle on every "
             "recorded error, conforming-document no-error oracle, error-site coverage counters")
LEVEL_TEXT = ("Held on the executions produced: for every input the strict run raised html5parser.ParseError (and nothing "
              "else) exactly when the non-strict run recorded an error, with the message of the first recorded error; "
              "every recorded error had a known code whose template formats with its variables and a position inside the "
              "input; generated conforming documents recorded none. Exploration with an EOF-in-every-state family.")
BUDGET_S = {"quick": 40, "thorough": 900}
RULE = ("cases = (input, document|fragment+container) from soup, misnesting, an EOF family (every prefix of ~300 "
        "tag/doctype/comment/reference spellings) and conforming documents (every tag explicit; the same document in other conforming spellings: name case, quoting styles, '/>' on void and childless foreign elements, reference forms, doctype forms; and with optional tags omitted wherever R-omit allows); each is parsed twice (strict, non-strict). "
        "distinct_nontrivial = distinct cases whose non-strict run recorded at least one error, plus conforming documents.")
ASSUMPTIONS = [
    "position 'inside the input' = 1 <= line <= number of lines of the newline-normalised input and 0 <= column <= length of that line",
    "the message table is read from html5lib.constants.E at run time (it is the thing being checked against the error sites)",
    "conforming documents = generator output that html5lib parses to the intended tree; the no-error clause is judged on all generated documents, before that filter",
]

EOF_SPELLINGS = [
    "<a b='c' d=\"e\" f=g h>", "<a b=\"x\"", "<a b='x'", "<a b=x", "<a b=", "<a b", "<a ", "<a/", "</a b=c>", "</a ", "</",
    "<!DOCTYPE html PUBLIC \"a\" \"b\">", "<!DOCTYPE html SYSTEM 'b'>", "<!DOCTYPE html PUBLIC 'a' 'b' x>", "<!doctype x y>",
    "<!--a--b--!>", "<!--a-->", "<!---->", "<!-->", "<!--->", "<!-x", "<!x", "<?x", "<![CDATA[x]]>", "<svg><![CDATA[x]]>",
    "<svg><![CDATA[x]]", "&amp;", "&amp", "&#x41;", "&#x41", "&#65", "&#", "&#x", "&notit;", "&x;", "<title>a</title>",
    "<title>a</titl", "<title>a</title ", "<textarea>a</textarea x=y>", "<style>a</style>", "<style>a</styl", "<script>a</script>",
    "<script><!--a--></script>", "<script><!--<script>a</script>--></script>", "<script><!--<script>a</scr",
    "<script><!--a</script", "<script><!--<script>a--", "<plaintext>a</plaintext>", "<xmp>a</xmp", "<a b=\"&amp\" c='&#x' d=&lt",
    "<table><tr><td>x</td></tr></table>", "<select><option>x</select>", "<frameset><frame></frameset>",
    "<svg><g><foreignObject><p>x</p></foreignObject></g></svg>", "<math><mi>x</mi><annotation-xml encoding='text/html'><p>",
    "<p><b><i>x</p>y</i></b>", "<a><div><a>", "x\x00y", "<a\x00b c\x00d=e\x00f>", "<!--\x00-->", "<!DOCTYPE \x00>",
    "<a b=\"c\"d>", "<a b=c\"d>", "<a \"b>", "<a =b>", "<a b=\"c\"/ >", "<a//>", "<br/>", "<div/>", "</br>", "</p>", "</>", "<>",
    "< a>", "<a<b>", "<a b<c=d>", "<a b=c d=e<f>", "<a b=`c`>", "<a b==c>", "\r\n\r", "<a\rb\r\nc>", "<body><body>", "<html><html>",
    "<head><head>", "</html>x", "</body>x", "<frameset></frameset>x", "<table>x</table>", "<table><b>", "<select><input>",
    "<select><select>", "<button><button>", "<form><form>", "<nobr><nobr>", "<h1><h2>", "<li><li>", "<dd><dt>", "<option><optgroup>",
    "<ruby><rt><rp>", "<image>", "<isindex>", "<isindex prompt=a action=b>", "<textarea>\n", "<pre>\n", "<listing>\n",
    "<noscript><p>", "<head><noscript><p>", "<head><noscript></noscript>", "<head><noscript><!--x--></noscript>",
    "<svg><p>", "<svg><font color>", "<svg><font>", "<math><mglyph><b>", "<svg></p>", "<svg></br>", "<svg><desc></svg>",
    "<table><caption><table>", "<table><colgroup>x", "<table><tbody><td>", "<table><tr><tr>", "<table><td><td>", "<table></tbody>",
    "<table><input type=hidden>", "<table><input>", "<table><form>", "<table><style>x</style>", "<table> ", "<table>\x00",
    "<!DOCTYPE html><!DOCTYPE html>", "x<!DOCTYPE html>", "<!DOCTYPE html PUBLIC \"-//W3C//DTD HTML 4.01//EN\">",
    "<!DOCTYPE html SYSTEM \"about:legacy-compat\">", "<!DOCTYPE x>", "<!DOCTYPE html PUBLIC\"a\"\"b\">", "<!DOCTYPE html SYSTEM\"b\">",
    "<!DOCTYPE html PUBLIC \"a\"x>", "<!DOCTYPE html PUBLIC \"a\" \"b\"x>", "<!DOCTYPE html PUBLIC \"a>", "<!DOCTYPE html PUBLIC 'a>",
    "<!DOCTYPE html SYSTEM \"a>", "<!DOCTYPE html SYSTEM 'a>", "<!DOCTYPE html PUBLIC>", "<!DOCTYPE html SYSTEM>", "<!DOCTYPE html PUBLIC x>",
    "<!DOCTYPE html SYSTEM x>", "<!DOCTYPE html PUBLIC \"a\" x>", "<!DOCTYPEhtml>", "<!DOCTYPE>", "<!DOCTYPE >",
    "\ud800", "﷐", "\x01", "\x7f", "\U0001fffe", "&#xD800;", "&#x0;", "&#x80;", "&#x110000;", "&#xFFFE;", "&#1;",
]


SHARED = {}


def norm_lines(data):
    return data.replace("\r\n", "\n").replace("\r", "\n").split("\n")


def judge(ctx, case, conforming=False):
    from .. import h5
    from html5lib import html5parser, constants
    data, frag, cont = case["input"], case.get("frag", False), case.get("container")
    kind = case.get("builder", "etree")

    def run(strict):
        p = html5parser.HTMLParser(h5.tb(kind), strict=strict)
        if frag:
            p.parseFragment(data, container=cont)
        else:
            p.parse(data)
        return p
    try:
        p = run(False)
        E = list(p.errors)
        # the same call on a long-lived parser object must record exactly the same errors
        sp = SHARED.get(kind)
        if sp is None:
            sp = SHARED[kind] = html5parser.HTMLParser(h5.tb(kind))
        try:
            if frag:
                sp.parseFragment(data, container=cont)
            else:
                sp.parse(data)
            ctx.count("reused_parser_compared")
            if list(sp.errors) != E:
                ctx.violation("errors-differ-on-reused-parser", case, "fresh parser %r, reused parser %r" % (E[:3], list(sp.errors)[:3]))
        except Exception:
            SHARED[kind] = None
    except Exception as e:
        ctx.count("nonstrict_raised")  # C03's subject
        ctx.add("nonstrict_exceptions", type(e).__name__)
        return
    ctx.case([data, frag, cont, kind], nontrivial=bool(E) or conforming)
    ctx.count("errors_recorded", len(E))
    lines = norm_lines(data)
    for pos, code, dv in E:
        ctx.add("codes_seen", code)
        if code not in constants.E:
            ctx.violation("code-missing-from-table:" + code, case, "recorded code %r has no message template" % code)
            continue
        try:
            constants.E[code] % dv
        except Exception as e:
            ctx.violation("template-does-not-format:" + code, case, "E[%r] %% %r raised %r" % (code, dv, e))
        ln, col = pos
        inside = isinstance(ln, int) and isinstance(col, int) and 1 <= ln <= len(lines) and 0 <= col <= len(lines[ln - 1])
        if (not inside and isinstance(ln, int) and isinstance(col, int) and 1 <= ln <= len(lines) and
                len(lines[ln - 1]) < col <= len(lines[ln - 1]) + 8 * data.count("<!")):
            # listed finding: characters of '<!DOCTYPE' / '<![CDATA[' / '<!--' look-ahead that are pushed back when
            # the chunk is exhausted are counted twice by the column bookkeeping (<= 8 per markup declaration)
            ctx.known_finding("position-overshoot-after-multichar-unget", case,
                              "error %s reported at %r, past the end of a %d-character line" % (code, pos, len(lines[ln - 1])))
        elif not inside:
            ctx.violation("position-outside-input:" + code, case,
                          "error %s at %r; input has %d lines, line length %s" % (
                              code, pos, len(lines), len(lines[ln - 1]) if isinstance(ln, int) and 1 <= ln <= len(lines) else "?"))
    if conforming:
        ctx.count("conforming_documents")
        if E:
            ctx.violation("conforming-document-has-errors:" + E[0][1], case, "errors %r" % (E[:3],))
    try:
        run(True)
        raised = None
    except html5parser.ParseError as e:
        raised = e
    except Exception as e:
        ctx.violation("strict-raised-%s" % type(e).__name__, case,
                      "strict mode raised %s: %s (non-strict errors: %r)" % (type(e).__name__, short(str(e), 200), E[:2]))
        return
    if E and raised is None:
        ctx.violation("strict-did-not-raise", case, "non-strict recorded %r" % (E[:2],))
    elif not E and raised is not None:
        ctx.violation("strict-raised-without-error", case, "ParseError(%s)" % raised)
    elif E:
        ctx.count("strict_raised")
        code, dv = E[0][1], E[0][2]
        try:
            want = constants.E[code] % dv
        except Exception:
            return
        if str(raised) != want:
            ctx.violation("strict-message-not-first-error", case, "raised %r, first recorded error %s -> %r" % (str(raised), code, want))
    else:
        ctx.count("clean_inputs")


def judge_injected(ctx, case):
    from .. import h5
    from html5lib import html5parser
    p = html5parser.HTMLParser(h5.tb("etree"))
    try:
        p.parse(case["input"])
    except Exception:
        return  # C03's subject
    ctx.count("injected_error_documents")
    ctx.add("injection_kinds", case["injected"])
    ctx.case(["injected", case["input"]], nontrivial=True)
    if not p.errors:
        ctx.violation("injected-parse-error-not-reported:" + case["injected"], case,
                      "a document with one %s records no parse error (strict mode would return a tree)" % case["injected"])
    judge(ctx, {"input": case["input"], "frag": False})


def omitted_variant(ctx, rng, doc):
    """The same conforming document with optional tags left out wherever the syntax's omission rules (R-omit, the
    checker's own reading; DESIGN Appendix D) allow it - still a conforming document, so it must record no error."""
    from . import c13
    pcs = conform.pieces(doc)
    tokens = [t for s, t in pcs]
    st = c13.analyse(tokens)
    if st is None:
        return None
    parent, match = st
    removed = set()
    rate = rng.choice([1.0, 0.8, 0.5])
    for i, t in enumerate(tokens):
        if t["type"] in ("StartTag", "EndTag") and rng.random() < rate and c13.allowed(tokens, i, parent, match, removed):
            removed.add(i)
            ctx.add("omitted_kinds", "%s %s" % ("<>" if t["type"] == "StartTag" else "</>", t["name"]))
    ctx.count("tags_omitted_by_R_omit", len(removed))
    return "".join(s for i, (s, t) in enumerate(pcs) if i not in removed)


def numeric_ref_is_error(cp):
    """The standard's numeric character reference end state: null, out of range, surrogate, noncharacter, C0 control other
    than ASCII whitespace (U+000D is a control here), U+007F..U+009F."""
    return (cp == 0 or cp > 0x10FFFF or 0xD800 <= cp <= 0xDFFF or 0xFDD0 <= cp <= 0xFDEF or (cp & 0xFFFE) == 0xFFFE or
            (cp < 0x20 and cp not in (9, 10, 12)) or 0x7F <= cp <= 0x9F)


def numeric_boundaries():
    cps = [0, 1, 8, 9, 0xA, 0xB, 0xC, 0xD, 0xE, 0x1F, 0x20, 0x7E, 0x7F, 0x80, 0x9F, 0xA0, 0xD7FF, 0xD800, 0xDFFF, 0xE000,
           0xFDCF, 0xFDD0, 0xFDEF, 0xFDF0, 0x10FFFF, 0x110000]
    for plane in range(17):
        cps += [plane * 0x10000 + 0xFFFD, plane * 0x10000 + 0xFFFE, plane * 0x10000 + 0xFFFF, (plane + 1) * 0x10000]
    return sorted(set(cps))


def shard(ctx):
    k = 0
    # numeric character references at every edge of the standard's error ranges, in an otherwise conforming document:
    # one side of each edge must record an error, the other side must not
    for cp in numeric_boundaries():
        for spelling in ("&#x%X;" % cp, "&#%d;" % cp):
            k += 1
            if not ctx.mine(k):
                continue
            ctx.count("numeric_reference_boundary_cases")
            for where in ("<p>%s</p>", "<p title=\"%s\">x</p>"):
                data = "<!DOCTYPE html><html><head><title>t</title></head><body>" + where % spelling + "</body></html>"
                if numeric_ref_is_error(cp):
                    judge_injected(ctx, {"input": data, "frag": False, "injected": "numeric-ref-boundary"})
                else:
                    judge(ctx, {"input": data, "frag": False, "conforming": True}, conforming=True)
    for sp in EOF_SPELLINGS:
        for cut in range(1, len(sp) + 1):
            k += 1
            if not ctx.mine(k):
                continue
            pre = sp[:cut]
            judge(ctx, {"input": pre, "frag": False})
            ctx.count("eof_family_cases")
            if cut % 3 == 0:
                judge(ctx, {"input": pre, "frag": True, "container": ("div", "title", "script", "svg", "table", "select")[cut % 6]})
    for q in gen.token_sequences(ctx, 3, 4, 0.6):
        judge(ctx, {"input": q, "frag": False})
        ctx.count("sequence_cases")
    n, idx = 0, ctx.i
    limit = (60000 if ctx.tier == "quick" else 4000000) // ctx.n
    t_end = time.time() + ctx.time_left()
    while n < limit and time.time() < t_end:
        rng = ctx.rng("rand", idx)
        idx += ctx.n
        n += 1
        r = rng.random()
        if r < 0.25:
            doc = conform.gen_document(rng, 3)
            case = {"input": conform.explicit(doc), "frag": False, "conforming": True}
            judge(ctx, case, conforming=True)
            vm, has_tail = conform.variant(rng, doc)
            ctx.count("conforming_documents_in_variant_spelling")
            judge(ctx, {"input": vm, "frag": False, "conforming": True, "variant": True}, conforming=True)
            # the converse: the same document with ONE construct the standard defines as a parse error must record an error
            # (and, by the pairing clause above, make strict mode raise)
            bad, kind = conform.inject_error(rng, doc)
            if bad is not None:
                judge_injected(ctx, {"input": bad, "frag": False, "injected": kind})
            om = omitted_variant(ctx, rng, doc)
            if om is not None and om != case["input"]:
                case = {"input": om, "frag": False, "conforming": True, "omitted": True}
                ctx.count("conforming_documents_with_omitted_tags")
                judge(ctx, case, conforming=True)
        else:
            data = gen.mixed(rng, 30)
            frag = rng.random() < 0.3
            case = {"input": data, "frag": frag, "container": rng.choice(gen.CONTEXTS) if frag else None,
                    "builder": rng.choice(["etree", "dom"])}
            judge(ctx, case)
        if n <= 3 and ctx.i == 0:
            ctx.sample({k2: (short(v, 200) if isinstance(v, str) else v) for k2, v in case.items()})


def replay(ctx, case):
    if case.get("injected"):
        judge_injected(ctx, case)
        return
    judge(ctx, case, conforming=bool(case.get("conforming")))


def finalize(m, v):
    from .. import gen as _gen
    _gen.sequences_inconclusive(m)
    c = m["counters"]
    seen = m["sets"].get("codes_seen", set())
    if len(seen) < 95:
        m["inconclusive"].append("only %d distinct error codes observed (< 95)" % len(seen))
    if c.get("conforming_documents", 0) < 1000:
        m["inconclusive"].append("fewer than 1000 conforming documents")
    if c.get("strict_raised", 0) < 1000 or c.get("clean_inputs", 0) < 100:
        m["inconclusive"].append("strict/non-strict pairing saw too few erroneous or clean inputs")
    try:
        import sys
        from .. import common
        common.import_repo()
        from html5lib import constants
        unseen = sorted(set(constants.E) - set(seen))
    except Exception:
        unseen = []
    return {"codes_observed": len(seen), "codes_in_table_never_observed": unseen}
