"""C17 - the whitespace filter changes nothing but whitespace."""
import time

from .. import streams, gen
from ..common import short

LEVEL = "exploration"
TECHNIQUE = ("runtime monitoring: per-token and per-text-run oracle from an independent preserve tracker (open-element "
             "stack), identity check on every non-text token, idempotence check; walker streams + synthetic streams")
LEVEL_TEXT = ("Held on the executions produced: for every stream the filter's output had the same non-text tokens in the "
              "same order, every text run equalled the independently computed expectation (collapse outside, untouched "
              "inside pre/textarea/raw-text elements) and F(F(S)) == F(S). Exploration over walker streams of parsed "
              "whitespace-rich input and synthetic (also unbalanced) streams.")
BUDGET_S = {"quick": 40, "thorough": 600}
RULE = ("cases = token streams: (a) etree and dom walker streams of parsed whitespace-rich/soup input (runs built from "
        "character references so they span tokens; nested preserve elements), (b) synthetic streams incl. unbalanced "
        "ones. distinct_nontrivial = distinct streams containing at least one ASCII-whitespace character in text.")
ASSUMPTIONS = [
    "'raw-text elements' is read as the name set {script, style, xmp, iframe, noembed, noframes, noscript} irrespective of namespace (lenient reading)",
    "on balanced streams 'inside' = some open ancestor is a preserve element; on unbalanced synthetic streams only the whitespace-only/idempotence/identity clauses are judged",
    "the filter mutates tokens in place, so the monitor deep-copies the input stream first",
]

WS = " \t\n\x0c\r"
PRESERVE = frozenset(["pre", "textarea", "script", "style", "xmp", "iframe", "noembed", "noframes", "noscript"])


def collapse(s):
    out = []
    inrun = False
    for ch in s:
        if ch in WS:
            if not inrun:
                out.append(" ")
                inrun = True
        else:
            out.append(ch)
            inrun = False
    return "".join(out)


def is_balanced(tokens):
    st = []
    for t in tokens:
        if t["type"] == "StartTag":
            st.append(t["name"])
        elif t["type"] == "EndTag":
            if not st or st.pop() != t["name"]:
                return False
    return not st


def judge(ctx, case, tokens, label):
    from html5lib.filters import whitespace
    inp = streams.copy_tokens(tokens)
    out = list(whitespace.Filter(streams.copy_tokens(tokens)))
    has_ws = any(t["type"] in ("Characters", "SpaceCharacters") and any(c in WS for c in t["data"]) for t in inp)
    ctx.case([label, [(t["type"], t.get("name"), t.get("data") if not isinstance(t.get("data"), dict) else None)
                      for t in inp]], nontrivial=has_ws)
    ctx.count("streams:" + label)
    if len(out) != len(inp):
        ctx.violation("token-count-changed", case, "%s: %d tokens in, %d out" % (label, len(inp), len(out)))
        return
    balanced = is_balanced(inp)
    ctx.count("balanced" if balanced else "unbalanced")
    stack = []
    i = 0
    n = len(inp)
    per_run_mismatch = None
    per_token_ok = True
    while i < n:
        a, b = inp[i], out[i]
        ty = a["type"]
        if ty in ("Characters", "SpaceCharacters"):
            j = i
            while j < n and inp[j]["type"] in ("Characters", "SpaceCharacters"):
                if out[j]["type"] != inp[j]["type"]:
                    ctx.violation("text-token-type-changed", case, "%s token %d" % (label, j))
                    return
                j += 1
            src = "".join(t["data"] for t in inp[i:j])
            got = "".join(t["data"] for t in out[i:j])
            # clause valid for every stream: only whitespace may change
            if [c for c in src if c not in WS] != [c for c in got if c not in WS]:
                ctx.violation("non-whitespace-changed", case, "%s run at %d: %r -> %r" % (label, i, src[:60], got[:60]))
                return
            if balanced:
                preserved = any(nm in PRESERVE for nm in stack)
                if preserved:
                    ctx.count("preserved_runs")
                    ctx.counters["max:preserve_depth"] = max(ctx.counters.get("max:preserve_depth", 0),
                                                             len(stack) - min(k for k, nm in enumerate(stack) if nm in PRESERVE))
                exp = src if preserved else collapse(src)
                if j - i >= 2:
                    ctx.count("runs_spanning_2plus_tokens")
                for c in src:
                    if c in WS:
                        ctx.add("ws_chars_seen", repr(c))
                    elif c in "\x0b\xa0 　":
                        ctx.add("lookalikes_kept", repr(c))
                if got != exp and per_run_mismatch is None:
                    per_run_mismatch = (i, src, exp, got)
                    tok_exp = "".join(t["data"] if preserved else collapse(t["data"]) for t in inp[i:j])
                    if got != tok_exp:
                        per_token_ok = False
                elif got != exp:
                    tok_exp = "".join(t["data"] if preserved else collapse(t["data"]) for t in inp[i:j])
                    if got != tok_exp:
                        per_token_ok = False
            i = j
            continue
        if a != b:
            ctx.violation("non-text-token-changed", case, "%s token %d: %r -> %r" % (label, i, a, b))
            return
        if ty == "StartTag":
            stack.append(a["name"])
        elif ty == "EndTag" and stack:
            stack.pop()
        i += 1
    if per_run_mismatch:
        i, src, exp, got = per_run_mismatch
        if per_token_ok and label != "etree-walker":
            ctx.known_finding("run-split-across-tokens-collapsed-per-token", case,
                              "%s: run %r -> %r, a maximal whitespace run spanning several tokens keeps one space per token (expected %r)"
                              % (label, src[:50], got[:50], exp[:50]))
        else:
            ctx.violation("text-run-wrong", case, "%s run at token %d: %r -> %r, expected %r" % (label, i, src[:80], got[:80], exp[:80]))
            return
    # idempotence
    out2 = list(whitespace.Filter(streams.copy_tokens(out)))
    ctx.count("idempotence_checked")
    if out2 != out:
        k = next(k for k in range(min(len(out), len(out2))) if out[k] != out2[k]) if len(out) == len(out2) else -1
        ctx.violation("not-idempotent", case, "%s: F(F(S)) != F(S) at token %d: %r vs %r" % (
            label, k, out[k] if k >= 0 else None, out2[k] if k >= 0 else None))


def synth_stream(rng):
    names = ["pre", "textarea", "script", "style", "div", "p", "b", "span", "svg", "title", "br", "xmp", "noscript"]
    toks = []
    for _ in range(rng.randint(1, 14)):
        r = rng.random()
        if r < 0.25:
            toks.append({"type": "StartTag", "name": rng.choice(names), "namespace": rng.choice([None, "http://www.w3.org/1999/xhtml", "http://www.w3.org/2000/svg"]), "data": {}})
        elif r < 0.45:
            toks.append({"type": "EndTag", "name": rng.choice(names), "namespace": None})
        elif r < 0.5:
            toks.append({"type": "EmptyTag", "name": rng.choice(["br", "pre", "img"]), "namespace": None, "data": {(None, "a"): " \n "}})
        elif r < 0.55:
            toks.append({"type": "Comment", "data": " \n x \t "})
        elif r < 0.58:
            toks.append({"type": "Doctype", "name": "html", "publicId": " a  b ", "systemId": None})
        elif r < 0.6:
            toks.append({"type": "Entity", "name": rng.choice(["amp", "nbsp"])})
        elif r < 0.61:
            toks.append({"type": "SerializeError", "data": " a  b "})
        elif r < 0.75:
            toks.append({"type": "SpaceCharacters", "data": "".join(rng.choice(WS) for _ in range(rng.choice([0, 1, 1, 2, 3, 4])))})
        else:
            toks.append({"type": "Characters", "data": "".join(rng.choice(["a", "b", " ", "\t", "\n", "\x0c", "\r", "\x0b", "\xa0", " ", "　", "  "]) for _ in range(rng.randint(1, 8)))})
    return toks


def run_case(ctx, case):
    from .. import h5
    if "tokens" in case:
        toks = [dict(t, data={(k.split("|")[0] or None, k.split("|")[1]): v for k, v in t["data"].items()})
                if isinstance(t.get("data"), dict) else dict(t) for t in case["tokens"]]
        judge(ctx, case, toks, "synthetic")
        return
    data = case["input"]
    for kind in ("etree", "dom"):
        try:
            if case["frag"]:
                flat, p, tree = h5.parse_frag(data, container=case["container"], kind=kind)
            else:
                flat, p, tree = h5.parse_doc(data, kind="etree-full" if kind == "etree" else "dom")
            tokens = list(h5.walker(kind)(tree))
        except Exception:
            ctx.count("parse_or_walk_raised")
            continue
        judge(ctx, case, tokens, kind + "-walker")
        if len(data) % 4 == 0 and not any(t["type"] == "SerializeError" for t in tokens):
            # the serializer's strip_whitespace option is this filter applied to the walker's stream, before the filters
            # that drop or rewrite tags (the filter must see balanced start/end tags of the preserving elements)
            from html5lib import serializer
            from html5lib.filters import whitespace
            for omit in (True, False):
                try:
                    a = serializer.HTMLSerializer(strip_whitespace=True, omit_optional_tags=omit).render(streams.copy_tokens(tokens))
                    b = serializer.HTMLSerializer(strip_whitespace=False, omit_optional_tags=omit).render(
                        whitespace.Filter(streams.copy_tokens(tokens)))
                except Exception:
                    ctx.count("serializer_raised_in_wiring_clause")
                    continue
                ctx.count("serializer_option_compared_with_filter")
                if a != b:
                    ctx.violation("serializer-option-differs-from-filter", case,
                                  "%s walker, omit_optional_tags=%s: strip_whitespace=True gives %r, the filter applied first gives %r" % (
                                      kind, omit, a[:200], b[:200]))
                    return


SEEDS = ["a &#32; b", "<pre> a  b <b> c  d </b>\n\n</pre> e  f ", "<textarea> a  b </textarea>  x  y ",
         "<script> a  b </script><style> c  d </style><xmp> e  f </xmp>", "<pre><pre><pre> x  y </pre> z  w </pre> </pre> q  r",
         "<div><pre> a </div>  b  c", "\x0b  \xa0     　  x", "<svg><style> a  b </style><title> c  d </title></svg>",
         "<p>a \t\n\x0c\r b</p>", "<title> a  b </title>", "<noscript> a  b </noscript>", "<iframe> a  b </iframe>",
         " ", "  ", "<br>  <br>  ", "<pre>\n\n a</pre>", "<listing>  a  b</listing>", "<plaintext>  a  b",
         # foreign elements named like HTML void elements inside pre: the stream must balance, preservation ends at </pre>
         ] + ["<pre><%s><%s/><%s>t</%s></%s> a  b </pre>x \t\n y  z" % (r, nm, nm, nm, r)
              for r in ("svg", "math") for nm in ("link", "source", "param", "base", "area", "col", "input", "track", "wbr")]


def shard(ctx):
    k = 0
    for s in SEEDS:
        for frag, cont in ((False, None), (True, "div")):
            k += 1
            if ctx.mine(k):
                run_case(ctx, {"input": s, "frag": frag, "container": cont})
    from .. import gen as _g
    for q in _g.token_sequences(ctx, 3, 3, 0.4, suffix=" \n x  "):
        run_case(ctx, {"input": q, "frag": False, "container": None})
        ctx.count("sequence_cases")
    n, idx = 0, ctx.i
    limit = (100000 if ctx.tier == "quick" else 3000000) // ctx.n
    t_end = time.time() + ctx.time_left()
    while n < limit and time.time() < t_end:
        rng = ctx.rng("rand", idx)
        idx += ctx.n
        n += 1
        if rng.random() < 0.3:
            toks = synth_stream(rng)
            case = {"tokens": [dict(t, data={"%s|%s" % (k2[0] or "", k2[1]): v for k2, v in t["data"].items()})
                               if isinstance(t.get("data"), dict) else t for t in toks]}
            judge(ctx, case, toks, "synthetic")
        else:
            data = streams.whitespace_rich(rng) if rng.random() < 0.7 else gen.soup(rng, 20)
            frag = rng.random() < 0.3
            case = {"input": data, "frag": frag, "container": rng.choice(["div", "pre", "textarea", "p", "td", "title"]) if frag else None}
            run_case(ctx, case)
        if n <= 3 and ctx.i == 0:
            ctx.sample(case)


def replay(ctx, case):
    run_case(ctx, case)


def finalize(m, v):
    from .. import gen as _gen
    _gen.sequences_inconclusive(m)
    c = m["counters"]
    if c.get("runs_spanning_2plus_tokens", 0) < 1000:
        m["inconclusive"].append("fewer than 1000 text runs spanning >= 2 tokens")
    if c.get("max:preserve_depth", 0) < 3:
        m["inconclusive"].append("preserve depth >= 3 never seen")
    if len(m["sets"].get("ws_chars_seen", ())) < 5:
        m["inconclusive"].append("not all five whitespace characters seen")
    if len(m["sets"].get("lookalikes_kept", ())) < 4:
        m["inconclusive"].append("not all look-alike spaces seen")
    if c.get("unbalanced", 0) < 100 or c.get("preserved_runs", 0) < 1000:
        m["inconclusive"].append("too few unbalanced streams or preserved runs")
    return {}
