"""C18 - alphabetical-attributes filter only reorders, deterministically."""
import itertools
import time

from .. import streams, gen

LEVEL = "exploration"
TECHNIQUE = ("runtime monitoring: multiset/ordering oracle on every tag token, all permutations of each generated "
             "attribute set (exhaustive per set), identity check on all other tokens")
LEVEL_TEXT = ("Held on the executions produced: for every attribute set (<= 6 entries, None and string namespaces, shared "
              "local names) and every one of its permutations the filter returned the same items, sorted by "
              "(namespace or '', local name), identically for all incoming orders; all other tokens passed unchanged. "
              "Permutations are complete per set; sets are sampled.")
BUDGET_S = {"quick": 30, "thorough": 400}
RULE = ("cases = (attribute set, permutation) for generated sets (every permutation of each set is run) plus walker "
        "streams of parsed input. distinct_nontrivial = distinct (set, permutation) with at least 2 attributes.")
ASSUMPTIONS = ["namespace '' (which the etree walker reports for an attribute literally named {}x) is included, but never together with None for the same local name: the two have the same sort key, so their relative order is not determined by the property",
               "the filter mutates tokens in place, so inputs are deep-copied first"]

NSS = [None, None, "", "http://www.w3.org/1999/xlink", "http://www.w3.org/XML/1998/namespace", "http://www.w3.org/2000/xmlns/",
       "a", "b", "B", "é", "\U0001F600", "http://www.w3.org/1999/xhtml", "{"]
LOCALS = ["a", "b", "href", "lang", "A", "aa", "a-b", "a:b", "z", "é", "\U0001F600", "0", "_", "xlink:href", "{x}y", "Z"]


OTHERS = [{"type": "Characters", "data": "t"}, {"type": "EndTag", "name": "x", "namespace": None}, {"type": "SpaceCharacters", "data": " "},
          {"type": "Comment", "data": "c"}, {"type": "Doctype", "name": "html", "publicId": None, "systemId": None},
          {"type": "Entity", "name": "amp"}, {"type": "SerializeError", "data": "e"}, {"type": "EndTag", "name": "y", "namespace": "http://www.w3.org/1999/xhtml"}]


def key(item):
    (ns, ln), v = item
    return ((ns or ""), ln)


def judge_set(ctx, items):
    """items: list of ((ns, local), value) with distinct keys; runs every permutation."""
    from html5lib.filters import alphabeticalattributes as aa
    from collections import OrderedDict
    expected = sorted(items, key=key)
    shared = len(set(ln for (ns, ln), v in items)) < len(items)
    if shared:
        ctx.count("sets_with_shared_local_name")
    ctx.count("attribute_sets")
    first = None
    for pn, perm in enumerate(itertools.permutations(items)):
        # the element's own namespace (None, XHTML, SVG) must play no role; the neighbours rotate over every other token type
        for ty, mk, tns in (("StartTag", OrderedDict, None), ("EmptyTag", dict, "http://www.w3.org/1999/xhtml"),
                            ("StartTag", dict, "http://www.w3.org/2000/svg"), ("EmptyTag", OrderedDict, None)):
            if True:
                tok = {"type": ty, "name": "x", "namespace": tns, "data": mk(perm)}
                pre = OTHERS[pn % len(OTHERS)]
                post = OTHERS[(pn + 3) % len(OTHERS)]
                out = list(aa.Filter([dict(pre), tok, dict(post)]))
                ctx.case(["perm", [[k[0], k[1], v] for k, v in perm], ty, mk.__name__], nontrivial=len(items) >= 2)
                ctx.count("permutations")
                case = {"items": [[k[0], k[1], v] for k, v in perm], "type": ty}
                if len(out) != 3 or out[0] != pre or out[2] != post or list(out[0]) != list(pre) or list(out[2]) != list(post):
                    ctx.violation("other-token-changed", case, repr(out)[:300])
                    return
                o = out[1]
                if o["type"] != ty or o["name"] != "x" or o["namespace"] != tns:
                    ctx.violation("tag-fields-changed", case, repr(o)[:300])
                    return
                got = list(o["data"].items())
                if sorted(got, key=repr) != sorted(items, key=repr):
                    ctx.violation("not-a-permutation", case, "in=%r out=%r" % (perm, got))
                    return
                if got != expected:
                    ctx.violation("not-sorted", case, "out=%r expected=%r" % (got, expected))
                    return
                if first is None:
                    first = got
                elif got != first:
                    ctx.violation("order-dependent", case, "out=%r vs %r" % (got, first))
                    return


def gen_set(rng):
    n = rng.choice([1, 2, 2, 3, 3, 4, 4, 5, 6])
    keys = set()
    tries = 0
    while len(keys) < n and tries < 50:
        tries += 1
        ln = rng.choice(LOCALS)
        if keys and rng.random() < 0.45:
            ln = rng.choice(sorted(keys, key=repr))[1]  # share a local name across namespaces
        k = (rng.choice(NSS), ln)
        # None and '' have the same sort key: with equal local names the order would be legitimately ambiguous
        if ((None if k[0] == "" else "") , ln) in keys:
            continue
        keys.add(k)
    return [(k, rng.choice(["", "v", "1", "é"])) for k in sorted(keys, key=repr)]


def judge_stream(ctx, case, tokens):
    from html5lib.filters import alphabeticalattributes as aa
    inp = streams.copy_tokens(tokens)
    out = list(aa.Filter(streams.copy_tokens(tokens)))
    ctx.case(["stream", case], nontrivial=any(len(t.get("data", "")) >= 2 for t in inp if t["type"] in ("StartTag", "EmptyTag")))
    ctx.count("walker_streams")
    if len(out) != len(inp):
        ctx.violation("token-count-changed", case, "%d -> %d" % (len(inp), len(out)))
        return
    for a, b in zip(inp, out):
        if a["type"] in ("StartTag", "EmptyTag"):
            if {k: v for k, v in a.items() if k != "data"} != {k: v for k, v in b.items() if k != "data"}:
                ctx.violation("tag-fields-changed", case, "%r -> %r" % (a, b))
                return
            got = list(b["data"].items())
            if got != sorted(a["data"].items(), key=key):
                ctx.violation("not-sorted", case, "in=%r out=%r" % (list(a["data"].items()), got))
                return
        elif a != b:
            ctx.violation("other-token-changed", case, "%r -> %r" % (a, b))
            return


def run_case(ctx, case):
    from .. import h5
    if "items" in case:
        judge_set(ctx, [((a, b), v) for a, b, v in case["items"]])
        return
    for kind in ("etree", "dom"):
        try:
            flat, p, tree = h5.parse_doc(case["input"], kind="etree-full" if kind == "etree" else "dom")
            tokens = list(h5.walker(kind)(tree))
        except Exception:
            ctx.count("parse_or_walk_raised")
            continue
        judge_stream(ctx, case, tokens)


def shard(ctx):
    fixed = [
        [((None, "a"), "1"), (("x", "a"), "2")], [((None, "b"), "1"), (("a", "a"), "2"), ((None, "a"), "3")],
        [(("http://www.w3.org/1999/xlink", "href"), "1"), ((None, "href"), "2"), (("http://www.w3.org/XML/1998/namespace", "href"), "3")],
        [((None, "z"), ""), (("z", "a"), ""), (("a", "z"), ""), ((None, "a"), "")],
        [(("", "title"), "1"), ((None, "id"), "2"), (("x", "title"), "3")], [(("", "b"), "1"), ((None, "a"), "2")],
    ]
    for k, items in enumerate(fixed):
        if ctx.mine(k):
            judge_set(ctx, items)
    n, idx = 0, ctx.i
    limit = (4000 if ctx.tier == "quick" else 200000) // ctx.n
    t_end = time.time() + ctx.time_left()
    while n < limit and time.time() < t_end:
        rng = ctx.rng("sets", idx)
        idx += ctx.n
        n += 1
        items = gen_set(rng)
        judge_set(ctx, items)
        if n <= 2 and ctx.i == 0:
            ctx.sample({"items": [[k[0], k[1], v] for k, v in items]})
        if n % 4 == 0:
            data = gen.soup(rng, 20)
            run_case(ctx, {"input": data})


def replay(ctx, case):
    run_case(ctx, case)


def finalize(m, v):
    c = m["counters"]
    if c.get("sets_with_shared_local_name", 0) < 1000:
        m["inconclusive"].append("fewer than 1000 attribute sets with a shared local name (%d)" % c.get("sets_with_shared_local_name", 0))
    if c.get("walker_streams", 0) < 500:
        m["inconclusive"].append("fewer than 500 walker streams")
    return {}
