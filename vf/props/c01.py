"""C01 - tree construction follows the WHATWG algorithm (differential monitor against R-tree)."""
import time

from .. import gen, canon
from ..ref import rtree, rtree_core
from ..common import short

LEVEL = "exploration"
TECHNIQUE = ("runtime monitoring: differential monitor of the real parser's tree (read by direct traversal) against an "
             "independent WHATWG tree-construction model (R-tree over R-tok); directed (context prefix x probe token x "
             "observation suffix) enumeration of the mode x token x stack-shape relation + soup/misnesting; "
             "determinism re-execution; known deviations only when the model with named switches reproduces html5lib exactly")
LEVEL_TEXT = ("Held on the executions produced: for every generated (input, document | fragment+context, scripting) the tree "
              "equalled the model's, or the model with the recorded deviation switches reproduced html5lib's tree exactly "
              "(reported as the listed finding(s), minimal switch subset).  The directed walk covers every context prefix of "
              "the catalogue x every probe token x 2 suffixes, in document and fragment mode, and EVERY sequence of up to 3 (quick) / 4 (thorough) "
              "tokens over a 43-token alphabet (one shorter as fragments in 16 contexts).  Exploration, not proof.")
BUDGET_S = {"quick": 75, "thorough": 1800}
RULE = ("cases = (input, mode in {document, fragment with an HTML context element}, scripting); inputs: directed walk "
        "(context prefix x probe token x suffix), families for the quirks-mode decision, the algorithms' loop bounds and the "
        "frameset-ok flag, soup, structure-aware misnesting. distinct_nontrivial = distinct cases "
        "whose tree has at least 4 elements beyond html/head/body or whose input is longer than 20 characters.")
ASSUMPTIONS = [
    "R-tree/R-tok are written from the 2020 text of the standard (DESIGN Appendix A); steps marked 'adopt' there follow html5lib and are not decided",
    "adjacent text nodes are merged before comparison",
    "<template> is not modelled: inputs with template tags are compared only against the 'template is an ordinary element' profile",
]

ALL_SWITCHES = ["special-set-html5lib", "ruby-no-rb-rtc", "aaa-html5lib", "command-is-void-in-head", "p-closers-html5lib",
                "isindex-expansion", "textarea-text-handled-in-body-mode", "after-body-space-no-reconstruct",
                "fragment-noscript-always-rawtext", "fragment-form-context-no-pointer", "foreign-attr-xml-base",
                "end-tag-other-ignores-namespace", "template-unsupported", "h5-character-token-granularity",
                "nested-table-start-not-reprocessed-in-fragment", "implied-end-tag-in-table-resets-foster-parenting",
                "cell-caption-space-not-in-body-rules", "newline-drop-tied-to-in-body-space-handler",
                "table-text-regardless-of-current-node", "table-text-not-flushed-by-doctype", "foster-target-test-by-name",
                "reprocess-request-dropped-in-table-voodoo", "reset-mode-cell-context-in-fragment",
                "implied-end-tags-ignore-namespace", "cdata-nul-replaced-by-tokenizer", "pop-until-ignores-namespace"]


LOOPS = []
SHARED = {}


def model(text, ctx_el, scripting, switches):
    try:
        return rtree.parse(text, ctx_el, scripting, switches)
    except (rtree.NotModelled, rtree_core.NotModelledCore):
        return None
    except rtree.ModelLoop as e:
        LOOPS.append((text, ctx_el, tuple(switches), str(e)))
        return None


def judge(ctx, case, fam="?"):
    from .. import h5
    data, cont, scr = case["input"], case.get("container"), case.get("scripting", False)
    try:
        if cont is not None:
            got = h5.parse_frag(data, container=cont, kind="etree", scripting=scr)[0]
        else:
            got = h5.parse_doc(data, kind="etree-full", scripting=scr)[0]
    except Exception as e:
        # no tree at all: the input has a tree under the standard's algorithm, so this is a violation here as well as of C03
        ctx.count("parse_raised")
        ctx.add("parse_exceptions", type(e).__name__)
        ctx.case([data, cont, scr], nontrivial=True)
        ctx.violation("parse-raised:" + type(e).__name__, case, "%s: %s" % (type(e).__name__, short(str(e), 200)))
        return
    # "a function of the input and the documented options alone": the same call on a long-lived parser object
    try:
        sp = SHARED.get("p")
        if sp is None:
            from html5lib import html5parser
            sp = SHARED["p"] = html5parser.HTMLParser(h5.tb("etree-full"))
        if cont is not None:
            got2 = h5.canon_of(sp.parseFragment(data, container=cont, scripting=scr), "etree")
        else:
            got2 = h5.canon_of(sp.parse(data, scripting=scr), "etree-full")
        ctx.count("reused_parser_compared")
        if got2 != got:
            ctx.violation("depends-on-call-history", case, "reused parser: %s" % canon.diff_text(got, got2, "fresh", "reused"))
    except Exception:
        SHARED["p"] = None
    if not scr and "noscript" in data:
        # the documented default of the scripting flag is False: leaving the argument out must not change the result
        try:
            from html5lib import html5parser as _hp
            pd = _hp.HTMLParser(h5.tb("etree-full" if cont is None else "etree"))
            got3 = h5.canon_of(pd.parse(data) if cont is None else pd.parseFragment(data, container=cont), "etree-full" if cont is None else "etree")
            ctx.count("default_scripting_compared")
            if got3 != got:
                ctx.violation("default-scripting-flag-is-not-false", case, canon.diff_text(got, got3, "scripting=False", "argument omitted"))
        except Exception:
            pass
    nel = sum(1 for e in got if e[0] == "S")
    ctx.case([data, cont, scr], nontrivial=nel >= 7 or len(data) > 20)
    ctx.count("cases:" + fam)
    exp = model(data, cont, scr, ())
    if exp == got:
        ctx.count("agree_with_standard")
        return
    full = model(data, cont, scr, ALL_SWITCHES)
    if full != got:
        # maybe a subset reproduces it (switches can interact); try dropping each once
        found = None
        for s in ALL_SWITCHES:
            sub = [x for x in ALL_SWITCHES if x != s]
            if model(data, cont, scr, sub) == got:
                found = sub
                break
        if found is None:
            ctx.violation("tree-differs", case, "%s || standard: %s || html5lib: %s" % (
                canon.diff_text(exp or full or [], got, "model", "html5lib"), canon.compact(exp or [])[:500], canon.compact(got)[:500]))
            return
        full_set = found
    else:
        full_set = list(ALL_SWITCHES)
    keep = list(full_set)
    for s in list(full_set):
        trial = [x for x in keep if x != s]
        if model(data, cont, scr, trial) == got:
            keep = trial
    for s in keep:
        ctx.known_finding(s, case, "standard: %s | html5lib: %s" % (canon.compact(exp or [])[:300], canon.compact(got)[:300]))


SEEDS = ["<p>x", "<b><p>x</b>y", "<table><b>x<tr><td>y</table><p>z", "<a><div><a>x", "<math><mi><b>x</mi>y"]

# G2 catalogue: context prefixes (DESIGN Appendix B)
PREFIXES = ["", "<!DOCTYPE html>", "<html>", "<head>", "<head><noscript>", "<head></head>", "<body>", "<p>", "<h1>", "<ul><li>", "<dl><dt>", "<dl><dd>",
            "<button>", "<a>", "<nobr>", "<form>", "<pre>", "<listing>", "<b><i>", "<b><b><b><b>", "<b><p>", "<b><i><u><s><tt><p>", "<b>" * 9 + "<p>",
            "<applet><b>", "<marquee>", "<object>", "<ruby>", "<ruby><rt>", "<ruby><rtc><rt>", "<option>", "<optgroup>", "<div><span>", "<p><b></p>",
            "<main>", "<details><summary>", "<title>", "<textarea>", "<style>", "<script>", "<xmp>", "<iframe>", "<noembed>", "<noframes>", "<noscript>",
            "<plaintext>", "<table>", "<table>x", "<table> ", "<table><caption>", "<table><colgroup>", "<table><tbody>", "<table><tr>", "<table><tr><td>",
            "<table><tr><th><b>", "<table><b>", "<table><b><p>", "<a><table><a>", "<select>", "<select><option>", "<select><optgroup><option>",
            "<table><tr><td><select>", "<table><select>", "<body></body>", "<body></body></html>", "<frameset>", "<frameset><frameset>",
            "<frameset></frameset>", "<frameset></frameset></html>", "<svg>", "<svg><g>", "<svg><foreignObject>", "<svg><desc>", "<svg><title>", "<math>",
            "<math><mi>", "<math><mtext><b>", "<math><annotation-xml>", "<math><annotation-xml encoding=text/html>", "<table><svg>", "<select><svg>",
            "<svg><script>", "<svg><style>", "<!DOCTYPE html PUBLIC \"-//W3C//DTD HTML 3.2//EN\"><p>", "<table><tr><td><b><p>", "<li><div>", "<dd><address>",
            "<table><caption><b>", "<table><tbody><svg>", "<template>", "<h1><b>", "<a><p>", "<nobr><p>", "<button><p>", "<form><table>", "<table><form>",
            # a formatting element that is open but not in scope (adoption agency step "in the stack but not in scope")
            "<b><table>", "<i><svg><foreignObject>", "<a><math><mi>", "<em><svg><desc>", "<b><table><tbody>",
            # a foreign element that carries an HTML structural name, then an integration point (so that the in-body rules
            # run with that element on the stack): every name-only test of the stack is exposed
            "<svg><html><desc>", "<svg><body><foreignObject>", "<math><html><mi>", "<svg><head><title>", "<svg><table><desc>",
            "<svg><select><foreignObject>", "<svg><p><desc>", "<svg><form><desc>", "<math><frameset><mtext>", "<svg><li><desc>",
            "<svg><button><foreignObject>", "<svg><template><desc>", "<math><td><mi>", "<svg><a><desc>", "<svg><option><desc>",
            "<table><tr><td><svg><tr><desc>", "<svg><dd><foreignObject>", "<svg><h1><desc>", "<svg><nobr><desc>", "<svg><applet><desc>"]
PROBE_TEXT = ["x", " ", "\t", "\n", "\x0c", "\x00", "&amp;", "x y", " x", "<!--c-->", "<!DOCTYPE html>", ""]
SUFFIXES = ["y<!--z-->", "<b>y</b><p>z"]


def doctype_family():
    """Every quirks / limited-quirks public identifier of the standard x system identifier shape x name, observed through
    the one tree-visible effect of quirks mode (<p><table> keeps p open)."""
    pubs = list(rtree_core.QUIRKS_PUBLIC_PREFIXES) + [
        "-//w3o//dtd w3 html strict 3.0//en//", "-/w3c/dtd html 4.0 transitional/en", "html",
        "-//w3c//dtd html 4.01 frameset//", "-//w3c//dtd html 4.01 transitional//", "-//w3c//dtd xhtml 1.0 frameset//",
        "-//w3c//dtd xhtml 1.0 transitional//", "-//w3c//dtd html 4.01//", "-//w3c//dtd xhtml 1.0 strict//", "", "x"]
    sysids = [None, "", "x", "http://www.ibm.com/data/dtd/v11/ibmxhtml1-transitional.dtd",
              "HTTP://WWW.IBM.COM/data/dtd/v11/ibmxhtml1-transitional.DTD", "http://www.ibm.com/data/dtd/v11/ibmxhtml1-transitional.dtd "]
    out = []
    for pi, pub in enumerate(pubs):
        for var in (pub, pub.upper(), pub + "EN", pub[:-1] if pub else "y"):
            for si, sysid in enumerate(sysids):
                q = "'" if (pi + si) % 3 == 0 and "'" not in var and "'" not in (sysid or "") else '"'
                d = "<!DOCTYPE html PUBLIC %s%s%s" % (q, var, q)
                if sysid is not None:
                    d += " %s%s%s" % (q, sysid, q)
                out.append(d + "><p><table>x")
    for name in ("html", "HTML", "htm", "html5", ""):
        for tail in ("", " SYSTEM 'about:legacy-compat'", " SYSTEM \"http://www.ibm.com/data/dtd/v11/ibmxhtml1-transitional.dtd\"", " SYSTEM ''",
                     " PUBLIC", " PUBLIC 'x", " SYSTEM \"x", " x", " PUBLIC 'html' x", " PUBLIC \"\" \"\"", " SYSTEM \"\" x"):
            out.append("<!DOCTYPE %s%s><p><table>x" % (name, tail))
    out += ["<p><table>x", "<!-- c --><!DOCTYPE html><p><table>x", " <!DOCTYPE html><p><table>x", "<!DOCTYPE html><!DOCTYPE x><p><table>x"]
    return out


def aaa_in_table_family():
    """Adoption agency whose common ancestor is a table part (the 'foster parent lastNode' branch), per table section."""
    out = []
    for sec in ("<table>", "<table><tbody>", "<table><thead>", "<table><tfoot>", "<table><tr>", "<table><tbody><tr>", "<table><caption>",
                "<table><colgroup>", "<table><tr><td>"):
        for f in ("b", "a", "em class=k", "nobr", "font color=x"):
            nm = f.split()[0]
            for blk in ("div", "p", "address", "ul><li", "table"):
                out.append("%s<%s><%s>x</%s>y</table>z" % (sec, f, blk, nm))
                out.append("<%s>%s<%s>x</%s>y</table>z</%s>w" % (f, sec, blk, nm, nm))
    return out


def limits_family():
    """Loop bounds and list limits of the algorithms: adoption agency outer (8) and inner (3) loops, Noah's Ark (3),
    scope depth, implied-end-tag chains."""
    out = []
    blocks = ["div", "p", "section", "ul", "li", "blockquote", "article", "dd", "address", "center", "h1", "table"]
    for n in range(0, 13):
        for f in ("b", "a", "em class=c", "nobr", "font size=1"):
            nm = f.split()[0]
            out.append("<%s>" % f + "<div>" * n + "x</%s>y" % nm)
            out.append("<%s>" % f + "".join("<%s>" % blocks[j % len(blocks)] for j in range(n)) + "x</%s>y</%s>z" % (nm, nm))
            out.append("<%s>" % f + "<i>" * n + "<p>x</%s>y" % nm)
            out.append("<%s>" % f + "".join("<%s>" % "iusb"[j % 4] for j in range(n)) + "<div>x</%s>y</i>z" % nm)
            out.append(("<%s>" % f) * n + "x" + "".join("</%s>%d" % (nm, j) for j in range(n)))
            out.append(("<%s>" % f) * n + "<p>x</p>y")
            out.append("<p>" + ("<%s>" % f) * n + "x</p>y</%s>z" % nm)
        out.append("<table>" * n + "x" + "</table>" * n + "y")
        # Noah's Ark counts only after the last marker: identical formatting elements on both sides of a marker
        for mk, close in (("<table><tr><td>", "</table>"), ("<applet>", "</applet>"), ("<marquee>", "</marquee>"), ("<object>", "</object>"),
                          ("<table><caption>", "</table>")):
            out.append("<p>" + "<b>" * n + mk + "<b>x</b>" + "</p>z")
            out.append("<p>" + "<b>" * n + mk + "<b>x</b>" + close + "</p>z")          # leave the marker's scope, then reconstruct
            out.append("<p>" + "<b>" * n + mk + "<b><b><b><b>x" + close + "</p>z</b>w")
        out.append("<ul><li>" * n + "x</li>y")
        out.append("<dl><dd>" * n + "<dt>x")
        out.append("<ruby>" + "<rb><rt>" * n + "x</ruby>y")
        out.append("<select>" + "<optgroup><option>" * n + "x</select>y")
        out.append("<table><td>" + "<b>" * n + "<table><td>x</b>y</table>z</b>w")
        out.append("<svg>" + "<g>" * n + "<p>x")
        out.append("<button>" * n + "x</button>y")
        out.append("<form>" * n + "x</form>y</form>z")
        out.append("<a>" * n + "x")
        out.append("<h%d>" % (n % 6 + 1) * 2 + "x</h1>y")
    return out


FRAMESET_PREFIXES = ["", "<!DOCTYPE html>", "<body>", "<p>", "<div><span>", "<svg>", "<svg><g>", "<svg><desc>", "<svg><foreignObject>", "<math>", "<math><mi>",
                     "<math><annotation-xml>", "<table>", "<table><tr><td>", "<select>", "<b>", "<head></head>", "<html>", "<body></body>", "<ruby>", "<form>",
                     "<svg></svg>", "<math></math>", "<p></p>", "<b></b>", "<table></table>", "<button>", "<object>", "<pre>", "<textarea></textarea>"]
FRAMESET_SUFFIX = "<frameset><frame></frameset>z"
FRAMESET_PROBES = PROBE_TEXT + ["a b", "a\tb", " \n", "\x00 ", "a\x00", " \x00 ", "&#32;", "&#x20;x", "<![CDATA[ ]]>", "<![CDATA[x y]]>", "<![CDATA[x]]>"]


def probes():
    out = list(PROBE_TEXT)
    for nm in sorted(set(gen.ALL_TAGS)):
        if nm != nm.lower() or any(ord(c) > 127 for c in nm):
            continue
        out.append("<%s>" % nm)
        out.append("</%s>" % nm)
    out += ["<input type=hidden>", "<input type=HIDDEN>", "<input type=text>", "<font color=x>", "<font size=1>", "<font x=y>", "<a href=x>", "<b id=1>",
            "<font face=x>", "<font COLOR=x>", "<font color>", "<br/>", "<svg/>", "<math/>", "<g/>", "<annotation-xml encoding=TEXT/HTML>", "<annotation-xml encoding=x>", "<html lang=en>", "<body class=c>",
            "<mglyph>", "<malignmark>", "<img>", "<image>", "</br>", "</p>", "<td>", "<th>", "<tr>", "<caption>", "<col>", "<colgroup>", "<tbody>", "<tfoot>", "<thead>"]
    return out


# bounded-exhaustive family: EVERY sequence of up to SEQ_LEN tokens over this alphabet (document mode, + observation text)
SEQ_ALPHABET = gen.TOKEN_ALPHABET
SEQ_LEN = {"quick": 3, "thorough": 4}


SEQ_CONTEXTS = ["div", "td", "tr", "tbody", "table", "caption", "colgroup", "select", "html", "head", "body", "title", "svg", "math", "p", "form"]


def sequences(ctx, L=None):
    """Shard-local slice of all sequences of length 1..L (index arithmetic, no materialised list)."""
    A = SEQ_ALPHABET
    n = len(A)
    if L is None:
        L = SEQ_LEN[ctx.tier]
    total = sum(n ** l for l in range(1, L + 1))
    idx = ctx.i
    while idx < total:
        r = idx
        l = 1
        while r >= n ** l:
            r -= n ** l
            l += 1
        parts = []
        for _ in range(l):
            parts.append(A[r % n])
            r //= n
        yield "".join(parts)
        idx += ctx.n


def shard(ctx):
    from .. import h5
    k = 0
    for s in SEEDS:
        k += 1
        if ctx.mine(k):
            judge(ctx, {"input": s, "container": None, "scripting": False}, "seed")
    pr = probes()
    ctxs = gen.CONTEXTS
    for pi, pre in enumerate(PREFIXES):
        for qi, q in enumerate(pr):
            k += 1
            if not ctx.mine(k):
                continue
            for suf in SUFFIXES:
                scr = bool((pi + qi) % 2)
                judge(ctx, {"input": pre + q + suf, "container": None, "scripting": scr}, "walk-document")
            if k % 40 == 0:
                determinism(ctx, {"input": pre + q + SUFFIXES[0], "container": None, "scripting": bool(qi % 2)})
            # fragment: the same probe in a rotating context element
            cont = ctxs[(pi * 7 + qi) % len(ctxs)]
            judge(ctx, {"input": pre + q + SUFFIXES[qi % 2], "container": cont, "scripting": bool(qi % 2)}, "walk-fragment")
    # every short token sequence (bounded-exhaustive: the count is reported, a shortfall makes the run inconclusive)
    t_seq = time.time() + ctx.time_left() * (0.5 if ctx.tier == "quick" else 0.6)
    done_all = True
    for qi, q in enumerate(sequences(ctx)):
        judge(ctx, {"input": q + "x", "container": None, "scripting": False}, "sequence")
        if qi % 64 == 0 and time.time() > t_seq:
            done_all = False
            break
    if done_all:
        # the same, one token shorter, as fragments in every context of SEQ_CONTEXTS
        for qi, q in enumerate(sequences(ctx, SEQ_LEN[ctx.tier] - 1)):
            for cont in SEQ_CONTEXTS:
                judge(ctx, {"input": q + "x", "container": cont, "scripting": False}, "sequence-fragment")
            if qi % 16 == 0 and time.time() > t_seq:
                done_all = False
                break
    ctx.count("sequence_shards_completed" if done_all else "sequence_shards_cut_short")
    # directed families added after the second round of seeded changes: quirks-mode decision, loop bounds, frameset-ok flag
    for fam, items in (("doctype", doctype_family()), ("limits", limits_family()), ("aaa-in-table", aaa_in_table_family())):
        for qi, q in enumerate(items):
            k += 1
            if ctx.mine(k):
                judge(ctx, {"input": q, "container": None, "scripting": bool(qi % 2)}, "family-" + fam)
                if fam == "limits" and qi % 3 == 0:
                    judge(ctx, {"input": q, "container": ctxs[qi % len(ctxs)], "scripting": False}, "family-" + fam)
    # form element pointer: set/cleared independently of whether the form is in scope
    fpre = ["<form>", "<form id=a><table>", "<form id=a><object>", "<form><table><tr><td>", "<form><marquee>", "<form><applet>", "<form><table><caption>",
            "<form><div>", "<form><p>", "<div><form>", "<form><svg><foreignObject>", "<form><button>", "<table><form>", "<form><select>", "<form></form>",
            "<form><b>", "<form><table><tbody>", "<form><template>", "<form><li>", "<form><math><mi>"]
    fmid = ["</form>", "", "</div>", "</p>", "</table>", "</object>", "<form>", "</form></form>", "</form></table>", "<table></form>"]
    for pi, pre in enumerate(fpre):
        for qi, mid in enumerate(fmid):
            k += 1
            if ctx.mine(k):
                judge(ctx, {"input": pre + mid + "<form id=b>x</form>y<input>", "container": None, "scripting": False}, "family-form-pointer")
                judge(ctx, {"input": pre + mid + "<form id=b>x</form>y<input>", "container": ("div", "form", "td", "table")[(pi + qi) % 4], "scripting": False},
                      "family-form-pointer")
    fpr = FRAMESET_PROBES + [x for x in pr if x.startswith("<") and not x.startswith("</")]
    for pi, pre in enumerate(FRAMESET_PREFIXES):
        for qi, q in enumerate(fpr):
            k += 1
            if ctx.mine(k):
                judge(ctx, {"input": pre + q + FRAMESET_SUFFIX, "container": None, "scripting": bool((pi + qi) % 2)}, "family-frameset-ok")
                # a frameset start tag inside foreign content is just a foreign element: leave foreign content first
                for closer in ("</svg>", "</math>"):
                    if pre.startswith("<" + closer[2:-1] + ">") and "</" not in pre:
                        judge(ctx, {"input": pre + q + closer + FRAMESET_SUFFIX, "container": None, "scripting": False}, "family-frameset-ok")
    # every fragment context x a small probe set (reset-the-insertion-mode and tokenizer start state per context)
    small = ["x", " x ", "<td>x", "<tr><td>x", "<option>x", "</select>x", "<b>x</p>y", "<svg><p>x", "<table><td>x", "<col>", "<caption>x", "<frame>",
             "<frameset>", "</body>x", "</html>x", "</html><!--c-->", "</body><!--c-->", "</body></html><!--c-->x", "</html> <!--c--> <p>", "<head>x", "<body a=b>x", "<html a=b>x", "<form>x", "&amp;</title>x", "<!--c-->", "\x00x"]
    for ci, cont in enumerate(ctxs):
        for qi, q in enumerate(small):
            k += 1
            if ctx.mine(k):
                judge(ctx, {"input": q, "container": cont, "scripting": bool((ci + qi) % 2)}, "contexts")
    n, idx = 0, ctx.i
    limit = (100000 if ctx.tier == "quick" else 5000000) // ctx.n
    t_end = time.time() + ctx.time_left()
    while n < limit and time.time() < t_end:
        rng = ctx.rng("rand", idx)
        idx += ctx.n
        n += 1
        r = rng.random()
        data = gen.nesting(rng) if r < 0.4 else (gen.soup(rng, 20 if ctx.tier == "quick" else 60) if r < 0.8 else gen.foreign_collide(rng))
        frag = rng.random() < 0.3
        case = {"input": data, "container": rng.choice(gen.CONTEXTS) if frag else None, "scripting": rng.random() < 0.3}
        judge(ctx, case, "random")
        if n % 12 == 0:
            # well-formed documents (G5), every tag explicit and with optional tags omitted by R-omit: the region where
            # implied end tags, table structure and head/body boundaries carry the result
            from .. import conform
            from . import c16
            doc = conform.gen_document(rng, rng.choice([2, 3, 3, 4]))
            judge(ctx, {"input": conform.explicit(doc), "container": None, "scripting": False}, "conforming")
            judge(ctx, {"input": conform.variant(rng, doc)[0], "container": None, "scripting": False}, "conforming-variant")
            om = c16.omitted_variant(ctx, rng, doc)
            if om is not None:
                judge(ctx, {"input": om, "container": None, "scripting": rng.random() < 0.2}, "conforming-omitted")
        if n % 50 == 0:
            determinism(ctx, case)
        if n <= 3 and ctx.i == 0:
            ctx.sample(case)
    modes_seen(ctx)
    report_loops(ctx)


def determinism(ctx, case):
    """Same call twice in this process (fresh parser objects) must give the same tree and errors."""
    from .. import h5
    res = []
    for _ in range(2):
        try:
            if case.get("container") is not None:
                f, p, t = h5.parse_frag(case["input"], container=case["container"], scripting=case.get("scripting", False))
            else:
                f, p, t = h5.parse_doc(case["input"], scripting=case.get("scripting", False))
            res.append((f, h5.errors_of(p)))
        except Exception as e:
            res.append(("exc", type(e).__name__))
    ctx.count("determinism_checked")
    if res[0] != res[1]:
        ctx.violation("non-deterministic", case, "two runs of the same call differ")


def modes_seen(ctx):
    """Coverage accounting from HTMLParser(debug=True).log over the prefix catalogue (evidence only)."""
    from .. import h5
    from html5lib import html5parser
    if ctx.i != 0:
        return
    for pre in PREFIXES:
        try:
            p = html5parser.HTMLParser(h5.tb("etree"), debug=True)
            p.parse(pre + "x<b>y</b>")
            for (tstate, phase, handling, method, info) in p.log:
                ctx.add("insertion_modes_seen", phase)
                ctx.add("mode_token_pairs_seen", "%s:%s:%s" % (handling, info.get("type"), info.get("name", "")) if info.get("type") in ("StartTag", "EndTag") and False else "%s:%s" % (handling, info.get("type")))
        except Exception:
            pass


def report_loops(ctx):
    for l in LOOPS[:3]:
        ctx.add("model_loops", repr(l)[:300])
    ctx.count("model_loops", len(LOOPS))


def replay(ctx, case):
    judge(ctx, case, "replay")


def finalize(m, v):
    c = m["counters"]
    modes = m["sets"].get("insertion_modes_seen", set())
    if len(modes) < 21:
        m["inconclusive"].append("only %d insertion modes seen in the prefix catalogue (< 21)" % len(modes))
    if c.get("cases:walk-document", 0) < len(PREFIXES) * 300:
        m["inconclusive"].append("directed walk incomplete (%d cases)" % c.get("cases:walk-document", 0))
    if c.get("model_loops", 0):
        m["inconclusive"].append("the reference model hit its reprocess-loop guard %d times" % c["model_loops"])
    if c.get("sequence_shards_cut_short", 0):
        m["inconclusive"].append("the bounded-exhaustive token-sequence family was cut short by the time budget in %d shard(s)" % c["sequence_shards_cut_short"])
    if c.get("determinism_checked", 0) < 500:
        m["inconclusive"].append("determinism clause checked fewer than 500 times")
    return {"prefixes": len(PREFIXES), "probes": len(probes()), "insertion_modes_seen": len(modes),
            "bounded_exhaustive_family": {"what": "every sequence of 1..L tokens over SEQ_ALPHABET, document mode (+ 'x'); every sequence of 1..L-1 tokens as a fragment in each of SEQ_CONTEXTS",
                                          "alphabet_size": len(SEQ_ALPHABET), "fragment_contexts": len(SEQ_CONTEXTS),
                                          "document_sequences_run": c.get("cases:sequence", 0), "fragment_sequences_run": c.get("cases:sequence-fragment", 0),
                                          "complete": not c.get("sequence_shards_cut_short", 0)}}
