"""C01 - tree construction follows the WHATWG algorithm (differential monitor against R-tree)."""
import time

from .. import gen, canon
from ..ref import rtree, rtree_core
from ..common import short

LEVEL = "exploration"
TECHNIQUE = ("runtime monitoring: differential monitor of the real parser's tree (read by direct traversal) against an "
             "independent WHATWG tree-construction model (R-tree over R-tok); directed (context prefix x probe token x "
             "observation suffix) enumeration of the mode x token x stack-shape relation + soup/misnesting; "
             "determinism re-execution; known deviations only when the model with named switches reproduces html5lib exactly")
LEVEL_TEXT = ("Held on the executions produced: for every generated (input, document | fragment+context, scripting) the tree "
              "equalled the model's, or the model with the recorded deviation switches reproduced html5lib's tree exactly "
              "(reported as the listed finding(s), minimal switch subset).  The directed walk covers every context prefix of "
              "the catalogue x every probe token x 2 suffixes, in document and fragment mode.  Exploration, not proof.")
BUDGET_S = {"quick": 60, "thorough": 1200}
RULE = ("cases = (input, mode in {document, fragment with an HTML context element}, scripting); inputs: directed walk "
        "(context prefix x probe token x suffix), soup, structure-aware misnesting. distinct_nontrivial = distinct cases "
        "whose tree has at least 4 elements beyond html/head/body or whose input is longer than 20 characters.")
ASSUMPTIONS = [
    "R-tree/R-tok are written from the 2020 text of the standard (DESIGN Appendix A); steps marked 'adopt' there follow html5lib and are not decided",
    "adjacent text nodes are merged before comparison",
    "<template> is not modelled: inputs with template tags are compared only against the 'template is an ordinary element' profile",
]

ALL_SWITCHES = ["special-set-html5lib", "ruby-no-rb-rtc", "aaa-html5lib", "command-is-void-in-head", "p-closers-html5lib",
                "isindex-expansion", "textarea-text-handled-in-body-mode", "after-body-space-no-reconstruct",
                "fragment-noscript-always-rawtext", "fragment-form-context-no-pointer", "foreign-attr-xml-base",
                "end-tag-other-ignores-namespace", "template-unsupported", "h5-character-token-granularity",
                "nested-table-start-not-reprocessed-in-fragment", "implied-end-tag-in-table-resets-foster-parenting",
                "cell-caption-space-not-in-body-rules", "newline-drop-tied-to-in-body-space-handler",
                "table-text-regardless-of-current-node", "table-text-not-flushed-by-doctype", "foster-target-test-by-name",
                "reprocess-request-dropped-in-table-voodoo", "reset-mode-cell-context-in-fragment"]


LOOPS = []


def model(text, ctx_el, scripting, switches):
    try:
        return rtree.parse(text, ctx_el, scripting, switches)
    except (rtree.NotModelled, rtree_core.NotModelledCore):
        return None
    except rtree.ModelLoop as e:
        LOOPS.append((text, ctx_el, tuple(switches), str(e)))
        return None


def judge(ctx, case, fam="?"):
    from .. import h5
    data, cont, scr = case["input"], case.get("container"), case.get("scripting", False)
    try:
        if cont is not None:
            got = h5.parse_frag(data, container=cont, kind="etree", scripting=scr)[0]
        else:
            got = h5.parse_doc(data, kind="etree-full", scripting=scr)[0]
    except Exception as e:
        ctx.count("parse_raised")
        ctx.add("parse_exceptions", type(e).__name__)
        return
    nel = sum(1 for e in got if e[0] == "S")
    ctx.case([data, cont, scr], nontrivial=nel >= 7 or len(data) > 20)
    ctx.count("cases:" + fam)
    exp = model(data, cont, scr, ())
    if exp == got:
        ctx.count("agree_with_standard")
        return
    full = model(data, cont, scr, ALL_SWITCHES)
    if full != got:
        # maybe a subset reproduces it (switches can interact); try dropping each once
        found = None
        for s in ALL_SWITCHES:
            sub = [x for x in ALL_SWITCHES if x != s]
            if model(data, cont, scr, sub) == got:
                found = sub
                break
        if found is None:
            ctx.violation("tree-differs", case, "%s || standard: %s || html5lib: %s" % (
                canon.diff_text(exp or full or [], got, "model", "html5lib"), canon.compact(exp or [])[:500], canon.compact(got)[:500]))
            return
        full_set = found
    else:
        full_set = list(ALL_SWITCHES)
    keep = list(full_set)
    for s in list(full_set):
        trial = [x for x in keep if x != s]
        if model(data, cont, scr, trial) == got:
            keep = trial
    for s in keep:
        ctx.known_finding(s, case, "standard: %s | html5lib: %s" % (canon.compact(exp or [])[:300], canon.compact(got)[:300]))


SEEDS = ["<p>x", "<b><p>x</b>y", "<table><b>x<tr><td>y</table><p>z", "<a><div><a>x", "<math><mi><b>x</mi>y"]


def shard(ctx):
    k = 0
    for s in SEEDS:
        k += 1
        if ctx.mine(k):
            judge(ctx, {"input": s, "container": None, "scripting": False}, "seed")
    n, idx = 0, ctx.i
    limit = (60000 if ctx.tier == "quick" else 3000000) // ctx.n
    t_end = time.time() + ctx.time_left()
    while n < limit and time.time() < t_end:
        rng = ctx.rng("rand", idx)
        idx += ctx.n
        n += 1
        data = gen.nesting(rng) if rng.random() < 0.5 else gen.soup(rng, 20)
        frag = rng.random() < 0.3
        case = {"input": data, "container": rng.choice(gen.CONTEXTS) if frag else None, "scripting": rng.random() < 0.3}
        judge(ctx, case, "random")
        if n <= 3 and ctx.i == 0:
            ctx.sample(case)
    report_loops(ctx)


def report_loops(ctx):
    for l in LOOPS[:3]:
        ctx.add("model_loops", repr(l)[:300])
    ctx.count("model_loops", len(LOOPS))


def replay(ctx, case):
    judge(ctx, case, "replay")


def finalize(m, v):
    return {}
