"""C08 - serializer output is lexically faithful or an error is reported (in-place re-tokenisation by R-tok)."""
import time

from .. import gen, canon, streams
from ..ref import rtok
from ..common import short

LEVEL = "exploration"
TECHNIQUE = ("runtime monitoring: the serializer's output is re-tokenised in place by the independent tokenizer model R-tok, "
             "whose state is switched by the element context the stream itself declares; the resulting tokens must equal "
             "the stream token by token unless HTMLSerializer.errors is non-empty (or strict raises)")
LEVEL_TEXT = ("Held on the executions produced: for every walker stream of a tree parsed from generated (malformed) input and "
              "every sampled serializer configuration (optional-tag omission off), either a serialization error was "
              "reported or R-tok read back exactly the tags, attribute names and values, text, comments and doctype of the "
              "stream, listed findings excepted (each tied to the token at which the streams first diverge). Exploration.")
BUDGET_S = {"quick": 50, "thorough": 900}
RULE = ("cases = (input, walker, serializer options, scripting flag of the reading parser); trees are parsed from soup / "
        "misnesting / directed lexical-context inputs so that text occurs in data, RCDATA, RAWTEXT, script, plaintext and "
        "foreign content, and attributes under every quoting mode. distinct_nontrivial = distinct cases whose stream has "
        "at least one tag with attributes or one text token containing one of < > & \" ' = `.")
ASSUMPTIONS = [
    "names are compared ASCII-case-insensitively (the tokenizer lower-cases; tree construction restores SVG camel case)",
    "a missing doctype identifier and an empty one are not distinguished (the DOM cannot represent the difference)",
    "the newline dropped after <pre>/<textarea>/<listing> is a tree-construction step and is C07's subject, not lexical",
    "an exception out of render() (SerializeError in strict mode, UnicodeEncodeError for unencodable names) counts as a reported error",
]

RAWTEXT_HTML = frozenset(["style", "xmp", "iframe", "noembed", "noframes"])
RCDATA_HTML = frozenset(["title", "textarea"])
RAWNAMES = frozenset(["style", "script", "xmp", "iframe", "noembed", "noframes", "noscript"])
PREFIX = {canon.XLINK: "xlink", canon.XML: "xml", canon.XMLNS: "xmlns"}
BOOL_TABLE = None


def lower_ascii(s):
    return "".join(c.lower() if "A" <= c <= "Z" else c for c in s)


def qname(ns, local):
    if ns is None:
        return local
    if ns == canon.XMLNS and local == "xmlns":
        return "xmlns"
    return "%s:%s" % (PREFIX.get(ns, ns), local)


def join_surrogates(s):
    """Adjacent lead+trail surrogate code points are one character in DOM (UTF-16) terms."""
    if not any("\ud800" <= c <= "\udfff" for c in s):
        return s
    return s.encode("utf-16-le", "surrogatepass").decode("utf-16-le", "surrogatepass")


def expected_tokens(stream):
    """Normalised expectation from the walker stream."""
    out = []
    stream = [dict(t, data=join_surrogates(t["data"])) if isinstance(t.get("data"), str) else
              (dict(t, data=type(t["data"])((k, join_surrogates(v)) for k, v in t["data"].items())) if isinstance(t.get("data"), dict) else t)
              for t in stream]
    for t in stream:
        ty = t["type"]
        if ty in ("StartTag", "EmptyTag"):
            attrs = [(lower_ascii(qname(ns, ln)), v, ns, ln) for (ns, ln), v in t["data"].items()]
            out.append(["start", lower_ascii(t["name"]), attrs, ty == "EmptyTag", t["namespace"], t["name"]])
        elif ty == "EndTag":
            out.append(["end", lower_ascii(t["name"]), t["namespace"]])
        elif ty in ("Characters", "SpaceCharacters"):
            if out and out[-1][0] == "chars":
                out[-1][1] += t["data"]
            elif t["data"]:
                out.append(["chars", t["data"]])
        elif ty == "Comment":
            out.append(["comment", t["data"]])
        elif ty == "Doctype":
            out.append(["doctype", t["name"] or "", t["publicId"] or "", t["systemId"] or ""])
        else:
            out.append(["other", ty])
    for e in out:
        if e[0] == "chars":
            raw = e[1]
            e[1] = join_surrogates(e[1])  # a pair split over two adjacent text tokens is one character as well
            e.append(raw)                  # (kept: the serializer saw the two halves in separate tokens)
    return out


def raw_refs_match(expected, got, enc):
    """got == expected with every character enc cannot encode spelled as &#xHEX; or a named reference for it."""
    from ..ref import charref
    i = 0
    exp2 = rtok.preprocess(expected)
    for c in exp2:
        try:
            c.encode(enc)
            if got[i:i + 1] != c:
                return False
            i += 1
        except UnicodeEncodeError:
            k = got.find(";", i)
            if got[i:i + 1] != "&" or k < 0 or k - i > 40:
                return False
            ref = got[i:k + 1]
            if ref.lower() != "&#x%x;" % ord(c) and charref.decode(ref) != c:
                return False
            i = k + 1
    return i == len(got)


def judge(ctx, case, stream, opts, scripting, label):
    from html5lib import serializer
    global BOOL_TABLE
    if BOOL_TABLE is None:
        from ..conform import BOOL_TABLE as BT
        BOOL_TABLE = BT
    so = dict(opts)
    enc = so.pop("encoding", None)
    so["inject_meta_charset"] = False  # the injected declaration is C15's subject
    s = serializer.HTMLSerializer(omit_optional_tags=False, **so)
    try:
        out = s.render(streams.copy_tokens(stream), enc) if enc else s.render(streams.copy_tokens(stream))
    except Exception as e:
        ctx.count("render_raised:" + type(e).__name__)
        return
    errs = list(s.errors)
    # strict mode <=> errors
    s2 = serializer.HTMLSerializer(omit_optional_tags=False, **so)
    s2.strict = True
    try:
        s2.render(streams.copy_tokens(stream), enc) if enc else s2.render(streams.copy_tokens(stream))
        strict_raised = False
    except serializer.SerializeError:
        strict_raised = True
    except Exception:
        strict_raised = None
    # the same serializer object used again (after a possibly aborted strict run) must produce the same output and errors
    try:
        s2.strict = False
        out_again = s2.render(streams.copy_tokens(stream), enc) if enc else s2.render(streams.copy_tokens(stream))
        ctx.count("reused_serializer_compared")
        if out_again != out or list(s2.errors) != errs:
            ctx.violation("reused-serializer-differs", case, "%s: second use of the serializer object after a strict run: output %s, errors %r vs %r" % (
                label, "equal" if out_again == out else "differs", list(s2.errors)[:2], errs[:2]))
            return
    except Exception as e:
        ctx.violation("reused-serializer-raised", case, "%s: %r" % (label, e))
        return
    if strict_raised is not None and strict_raised != bool(errs):
        ctx.violation("strict-vs-errors-disagree", case, "%s: errors=%r strict raised=%r" % (label, errs[:2], strict_raised))
        return
    # text written raw (inside an element the serializer treats as raw text: by bare name) that contains "</" cannot be
    # represented; the property then requires the error branch
    if not so.get("escape_rcdata"):
        st = []
        for t in stream:
            ty = t["type"]
            if ty == "StartTag":
                st.append(t["name"])
            elif ty == "EndTag" and st:
                st.pop()
            elif ty in ("Characters", "SpaceCharacters") and st and st[-1] in RAWNAMES and "</" in t["data"]:
                ctx.count("raw_text_with_end_tag_sequences")
                if not errs:
                    ctx.violation("raw-text-with-end-tag-not-reported", case,
                                  "%s: text %r inside <%s> is written raw and no serialization error was recorded" % (label, t["data"][:60], st[-1]))
                    return
                break
    if errs:
        ctx.count("error_reported")
        return
    if enc:
        try:
            out = out.decode(enc)
        except Exception as e:
            ctx.violation("output-not-decodable", case, repr(e))
            return
    exp = expected_tokens(stream)
    if so.get("alphabetical_attributes"):
        for e in exp:
            if e[0] == "start":
                e[2].sort(key=lambda a: (a[2] or "", a[3]))  # by design: sorted by (namespace or '', local name)
    nontrivial = any(e[0] == "start" and e[2] for e in exp) or any(e[0] == "chars" and any(c in e[1] for c in "<>&\"'=`") for e in exp)
    ctx.case([label, case.get("input"), sorted(opts.items()), scripting], nontrivial=nontrivial)
    ctx.count("streams_retokenised")
    stack = []
    rt = rtok.RTok(out, "data", None, lambda: bool(stack) and stack[-1] not in (None, canon.HTML))
    it = rt.tokens()
    i = 0
    n = len(exp)

    def known(key, why):
        ctx.known_finding(key, case, "%s, options %r: %s; output %s" % (label, opts, why, short(out, 300)))

    def ctx_elem():
        return stack_names[-1] if stack_names else (None, None)
    stack_names = []
    for e in exp:
        if e[0] == "chars":
            cx = stack_names[-1] if stack_names else (None, "")
            for c in e[1]:
                if c in "<>&\"'=` \t\n":
                    ctx.add("text_char_contexts", "%s:%s" % (("html:" + cx[1]) if cx[0] in (None, canon.HTML) and cx[1] in RAWNAMES | RCDATA_HTML | {"plaintext"}
                                                              else ("foreign" if cx[0] not in (None, canon.HTML) else "data"), c))
        if e[0] == "start":
            if not e[3]:
                stack_names.append((e[4], e[1]))
        elif e[0] == "end" and stack_names:
            stack_names.pop()
    while True:
        tok = next(it, None)
        if tok is not None:
            if tok[0] in ("chars", "comment"):
                tok = (tok[0], join_surrogates(tok[1]))
            elif tok[0] == "start":
                tok = (tok[0], tok[1], tuple((k2, join_surrogates(v2)) for k2, v2 in tok[2]), tok[3])
        e = exp[i] if i < n else None
        if tok is None and e is None:
            return
        where = "token %d: stream %r, re-read %r" % (i, e[:3] if e else None, tok)
        if (e is not None and e[0] == "start" and so.get("minimize_boolean_attributes", True) and
                (tok is None or tok[0] != "start" or tok[1] != e[1])):
            # listed mechanism, quote variant: a minimised boolean attribute followed by an attribute whose name starts
            # with =" or =' : the '=' is read as the value separator of the minimised attribute and the quote opens a
            # quoted value that swallows what follows (possibly up to the end of the output, so no tag token at all)
            names = [lower_ascii(ln) if ns is not None else qn for (qn, v, ns, ln) in e[2]]
            for k2 in range(len(names) - 1):
                if (names[k2 + 1][:1] == "=" and names[k2 + 1][1:2] in ('"', "'") and
                        (names[k2] in BOOL_TABLE.get(e[5], ()) or names[k2] in BOOL_TABLE[""])):
                    if e[2][k2][1] != "":
                        known("boolean-attribute-value-minimised", where)
                    known("equals-named-attribute-after-minimised-attribute", where)
                    return
        if tok is None or e is None:
            pass
        elif e[0] == "start" and tok[0] == "start" and tok[1] == e[1]:
            got_attrs = list(tok[2])
            want = [(a[0], a[1]) for a in e[2]]
            if got_attrs != want:
                # attribute-level listed findings: rewrite the expectation the way each mechanism does, then require equality
                used = []
                w2 = []
                for (qn, v, ns, ln) in e[2]:
                    name = qn
                    if ns is not None:
                        name = lower_ascii(ln)
                        used.append("attribute-namespace-dropped")
                    w2.append([name, v])
                if label.startswith("etree") and any(ns is not None and ns not in PREFIX for (_, _, ns, _) in e[2]):
                    used.append("etree-walker-clark-attr-conflation")
                if so.get("minimize_boolean_attributes", True):
                    for a in w2:
                        if (a[0] in BOOL_TABLE.get(e[5], ()) or a[0] in BOOL_TABLE[""]) and a[1] != "":
                            a[1] = ""
                            used.append("boolean-attribute-value-minimised")
                if (so.get("use_trailing_solidus") and not so.get("space_before_trailing_solidus", True) and e[5] in VOIDS_H5 and w2 and
                        got_attrs and got_attrs[-1][1] == w2[-1][1] + "/"):
                    w2[-1][1] += "/"
                    used.append("unquoted-value-before-trailing-solidus")
                from ..ref import charref as _cr

                def conv_enc(v):
                    if not enc:
                        return v
                    o = []
                    for c in v:
                        try:
                            c.encode(enc)
                            o.append(c)
                        except UnicodeEncodeError:
                            o.append(_cr.numeric_value(ord(c)))
                    return "".join(o)
                for a, g in zip(w2, got_attrs):
                    if a[1] != g[1] and conv_enc(a[1]) == g[1]:
                        a[1] = g[1]
                        used.append("unencodable-character-with-unfaithful-numeric-reference")
                    if a[1] != g[1] and rtok.preprocess(a[1]) == g[1]:
                        a[1] = g[1]
                        used.append("carriage-return-written-raw")
                    if a[1] != g[1] and rtok.preprocess(conv_enc(a[1])) == g[1]:
                        a[1] = g[1]
                        used += ["carriage-return-written-raw", "unencodable-character-with-unfaithful-numeric-reference"]
                # duplicate names after dropping namespaces: first wins
                seen = set()
                w3 = []
                for a in w2:
                    if a[0] in seen:
                        continue
                    seen.add(a[0])
                    w3.append((a[0], a[1]))
                if got_attrs != w3 and so.get("minimize_boolean_attributes", True):
                    # a valueless (minimised) attribute followed by an attribute whose name starts with '=': the '=' is
                    # read as the first attribute's value separator; what follows depends on the quoting and is not
                    # decided here (the attributes before that point must agree)
                    for k2 in range(len(w3) - 1):
                        a = w3[k2]
                        if (w3[k2 + 1][0].startswith("=") and a[1] == "" and (a[0] in BOOL_TABLE.get(e[5], ()) or a[0] in BOOL_TABLE[""])
                                and got_attrs[:k2] == w3[:k2] and len(got_attrs) > k2 and got_attrs[k2][0] == a[0]
                                and (got_attrs[k2][1].startswith(w3[k2 + 1][0][1:])
                                     # the character after '=' is a quote: it opens a quoted value instead
                                     or (w3[k2 + 1][0][1:2] in ('"', "'")
                                         and got_attrs[k2][1].startswith((w3[k2 + 1][0][2:] + "=").split(w3[k2 + 1][0][1])[0])))):
                            w3 = got_attrs
                            used.append("equals-named-attribute-after-minimised-attribute")
                            break
                if got_attrs == w3 and used:
                    for u in sorted(set(used)):
                        known(u, where)
                    if "equals-named-attribute-after-minimised-attribute" in used:
                        return  # where the tag ends after that is lexically undecidable here
                else:
                    ctx.violation("attributes-differ", case, "%s: %s" % (label, where) + " || output " + short(out, 400))
                    return
            if not e[3]:
                stack.append(e[4])
                if e[4] in (None, canon.HTML):
                    nm = e[1]
                    if nm in RCDATA_HTML:
                        rt.state = "rcdata"
                    elif nm in RAWTEXT_HTML or (nm == "noscript" and scripting):
                        rt.state = "rawtext"
                    elif nm == "script":
                        rt.state = "script"
                    elif nm == "plaintext":
                        rt.state = "plaintext"
            i += 1
            continue
        elif e[0] == "end" and tok[0] == "end" and tok[1] == e[1]:
            if stack:
                stack.pop()
            i += 1
            continue
        elif e[0] == "chars" and tok[0] == "chars" and tok[1] == e[1]:
            i += 1
            continue
        elif e[0] == "comment" and tok[0] == "comment" and tok[1] == e[1]:
            i += 1
            continue
        elif e[0] == "doctype" and tok[0] == "doctype" and (tok[1], tok[2] or "", tok[3] or "") == (e[1], e[2], e[3]):
            i += 1
            continue
        # ---- divergence: is it a listed mechanism at exactly this token?
        prev = exp[i - 1] if i > 0 else None
        cur_ns = stack[-1] if stack else None
        # the element whose content we are in = last unmatched start
        opener = None
        depth = 0
        for j in range(i - 1, -1, -1):
            if exp[j][0] == "end":
                depth += 1
            elif exp[j][0] == "start" and not exp[j][3]:
                if depth == 0:
                    opener = exp[j]
                    break
                depth -= 1
        if e is not None and e[0] == "chars" and opener is not None:
            ons, onm = opener[4], opener[1]
            if ons not in (None, canon.HTML) and onm in RAWNAMES and not so.get("escape_rcdata") and ("<" in e[1] or "&" in e[1]):
                return known("raw-text-by-bare-name-foreign", where)
            if ons in (None, canon.HTML) and onm == "noscript" and not scripting and not so.get("escape_rcdata") and ("<" in e[1] or "&" in e[1]):
                return known("noscript-raw-text-read-with-scripting-off", where)
            if ons in (None, canon.HTML) and onm == "plaintext":
                return known("plaintext-content-not-representable", where)
            if ons in (None, canon.HTML) and onm in RAWNAMES and so.get("escape_rcdata") and any(c in e[1] for c in "<>&"):
                return known("escape-rcdata-alters-raw-text", where)
            if ons in (None, canon.HTML) and onm == "script" and "<!--" in e[1] and "<script" in lower_ascii(e[1]):
                return known("script-double-escape-not-detected", where)
            if enc and ons in (None, canon.HTML) and onm in RAWNAMES | {"script"}:
                from .c07 import matches_with_charrefs
                if tok is not None and tok[0] == "chars" and matches_with_charrefs(e[1], tok[1], enc):
                    return known("charref-in-raw-text-for-unencodable", where)
        if e is not None and e[0] in ("chars", "comment") and tok is not None and tok[0] == e[0] and "\r" in e[1] and rtok.preprocess(e[1]) == tok[1]:
            known("carriage-return-written-raw", where)
            i += 1
            continue
        if e is not None and e[0] in ("start", "comment") and opener is not None and opener[4] in (None, canon.HTML) and opener[1] == "plaintext":
            return known("plaintext-content-not-representable", where)
        if enc and e is not None and e[0] == "chars" and tok is not None and tok[0] == "chars" and opener is not None and \
                opener[4] in (None, canon.HTML) and opener[1] in RAWNAMES | {"script"} and raw_refs_match(e[1], tok[1], enc):
            return known("charref-in-raw-text-for-unencodable", where)
        if e is not None and e[0] in ("start", "comment") and opener is not None and opener[4] in (None, canon.HTML) and opener[1] in RCDATA_HTML:
            return known("markup-child-of-rcdata-element-not-reported", where)
        if enc and e is not None and e[0] == "chars" and tok is not None and tok[0] == "chars":
            from ..ref import charref

            def conv(c):
                try:
                    c.encode(enc)
                    return c
                except UnicodeEncodeError:
                    return charref.numeric_value(ord(c))
            if any("".join(conv(c) for c in cand) == tok[1] or rtok.preprocess("".join(conv(c) for c in cand)) == tok[1]
                   for cand in ([e[1]] + ([e[2]] if len(e) > 2 and e[2] != e[1] else []))):
                known("unencodable-character-with-unfaithful-numeric-reference", where)
                i += 1
                continue
        if e is not None and e[0] == "end" and opener is not None and opener[4] in (None, canon.HTML) and opener[1] == "plaintext":
            return known("plaintext-content-not-representable", where)
        if e is not None and e[0] == "end" and opener is not None and opener[4] in (None, canon.HTML) and opener[1] == "script" and prev and prev[0] == "chars" \
                and "<!--" in prev[1] and "<script" in lower_ascii(prev[1]):
            return known("script-double-escape-not-detected", where)
        if e is not None and e[0] == "comment" and (e[1].startswith(">") or e[1].startswith("->")):
            return known("comment-data-closing-the-comment-early", where)
        if e is not None and e[0] == "comment" and "--!>" in e[1]:
            return known("comment-data-closing-the-comment-early", where)
        if e is not None and e[0] == "doctype" and label.startswith("dom") and e[1] == "" and tok is not None and tok[0] == "doctype" and tok[1] == "none":
            known("dom-empty-doctype-name-serialised-as-None", where)
            i += 1
            continue
        if e is not None and e[0] == "doctype" and ('"' in e[2] or (">" in e[2] + e[3])):
            return known("doctype-identifier-not-representable", where)
        if e is not None and e[0] == "chars" and opener is not None and opener[4] in (None, canon.HTML) and opener[1] == "plaintext":
            return known("plaintext-content-not-representable", where)
        ctx.violation("retokenised-stream-differs:%s" % (e[0] if e else "extra-output"), case,
                      "%s, options %r, scripting %r: %s || output %s" % (label, opts, scripting, where, short(out, 500)))
        return


VOIDS_H5 = frozenset(["area", "base", "br", "col", "command", "embed", "event-source", "hr", "img", "input", "link", "meta", "param", "source", "track", "wbr"])

OPTS = {
    "quote_attr_values": ["legacy", "spec", "always"], "quote_char": [None, "'", '"'], "use_best_quote_char": [None, True, False],
    "minimize_boolean_attributes": [True, False], "use_trailing_solidus": [False, True], "space_before_trailing_solidus": [True, False],
    "escape_lt_in_attrs": [False, True], "escape_rcdata": [False, False, True], "alphabetical_attributes": [False, True],
    "encoding": [None, None, None, "utf-8", "ascii", "koi8-r"],
}

LEX = ["<", ">", "&", "\"", "'", "=", "`", " ", "\t", "\n", "&amp;", "&lt;", "</", "<!--", "-->", "]]>", "<![CDATA[", "</script", "</style", "</title", "</textarea", "<script", "\x00", "é", "\U0001F600", "/", "-", "--", "\\",
       # pieces that make character-reference look-alikes once an ampersand precedes them (text and attribute values)
       # characters whose entity name html5lib's encoder knows only in the legacy, semicolon-less spelling (upper-case Latin-1)
       "\xc9", "\xc9mile", "\xd6=1", "\xc6b", "\xc0\xc1", "\xde9",
       "#", "#x", "#60;", "#x3c;", "#62", "#x3E", "#0;", "lt;", "lt", "gt;", "amp;", "quot;", "notit;", "not", ";", "0", "1", "&#", "&lt", "&#x"]


def lexical_input(rng):
    def junk(k=4):
        return "".join(rng.choice(LEX + ["a", "b", "x1"]) for _ in range(rng.randint(1, k)))

    def tx():
        return junk().replace("&", "&amp;").replace("<", "&lt;")
    el = rng.choice(["div", "p", "title", "textarea", "style", "script", "xmp", "iframe", "noembed", "noframes", "noscript", "plaintext", "pre", "listing",
                     "svg", "math", "svg><style", "svg><script", "svg><title", "svg><desc", "svg><foreignObject", "math><mi", "math><annotation-xml", "svg><xmp",
                     "math><style", "a", "td", "option", "button"])
    attrs = ""
    for _ in range(rng.choice([0, 1, 1, 2, 3])):
        an = rng.choice(["title", "class", "href", "xlink:href", "xml:lang", "xmlns:xlink", "disabled", "checked", "data-x", "a\"b", "a'b", "a<b", "=x", "{x}y", "viewBox", "definitionurl", "irrelevant", "x:y"])
        av = junk(3).replace("&", "&amp;").replace("\"", "&quot;") if rng.random() < 0.8 else rng.choice(["", an, "a b", "a/", "a'b\"c".replace("\"", "&quot;")])
        attrs += " %s=\"%s\"" % (an, av)
    first = el.split(">")[0]
    rest = el[len(first):]
    body = tx() if rng.random() < 0.85 else "<b>" + tx() + "</b><br title=\"%s\">" % tx()
    s = "<%s%s%s>%s" % (first, attrs if not rest else "", rest + (attrs if rest else ""), body)
    r = rng.random()
    if r < 0.15:
        s = "<!--%s-->" % rng.choice([">x", "->x", "-", "a-", "x--!>y", "<!--", "a-b", " ", "--", "é"]) + s
    elif r < 0.25:
        q = rng.choice(['"', "'"])
        o = "'" if q == '"' else '"'
        ident = rng.choice(["%sx%s y", "x%s", "%s", "a%sb%sc", "%s%s", "x y%s"]).replace("%s", q)
        extra = ["<!DOCTYPE html SYSTEM %s%s%s>" % (o, ident, o), "<!DOCTYPE html PUBLIC %s%s%s %sz%s>" % (o, ident, o, o, o),
                 "<!DOCTYPE html PUBLIC %sp%s %s%s%s>" % (o, o, o, ident, o)]
        s = rng.choice(extra + ["<!DOCTYPE html>", "<!DOCTYPE html PUBLIC 'a\"b' 'c'>", "<!DOCTYPE x SYSTEM \"a'b\">", "<!DOCTYPE html PUBLIC \"a\" 'b\"c'>", "<!DOCTYPE html PUBLIC '' ''>",
                        "<!DOCTYPE>", "<!DOCTYPE a PUBLIC \"x>y\">", "<!DOCTYPE html SYSTEM 'a\"b'>", "<!DOCTYPE html SYSTEM 'a\"b' >"]) + s
    return s


def run_case(ctx, case):
    from .. import h5
    data = case["input"]
    opts = {k: v for k, v in case["options"].items() if v is not None}
    for kind in ("etree", "dom"):
        try:
            if case.get("frag"):
                flat, p, tree = h5.parse_frag(data, container=case.get("container") or "div", kind=kind, scripting=case.get("parse_scripting", False))
            else:
                flat, p, tree = h5.parse_doc(data, kind="etree-full" if kind == "etree" else "dom", scripting=case.get("parse_scripting", False))
            stream = list(h5.walker(kind)(tree))
        except Exception:
            ctx.count("parse_or_walk_raised")
            continue
        if any(t["type"] == "SerializeError" for t in stream):
            ctx.count("serialize_error_token_streams")  # reported as an error by the serializer -> held by definition
        # the reading parser has the scripting flag the tree was parsed with (noscript holds elements iff scripting was off)
        judge(ctx, case, stream, opts, bool(case.get("parse_scripting", False)), "%s-walker" % kind)


SEEDS = ["<svg><style>&lt;img src=x onerror=alert(1)&gt;</style></svg>", "<noscript>&lt;b&gt;x&lt;/b&gt;</noscript>", "<svg xlink:href=\"a\"><a xlink:href=b>",
         "<plaintext>a&lt;b", "<event-source>x</event-source>", "<!--->x-->", "<!-->-->", "<!DOCTYPE html PUBLIC 'a\"b' 'c'>", "<p {x}y=z>", "<input disabled=disabled>",
         "<script><!--<script></script>x", "<script>a&lt;b</script>", "<title>a&lt;/title&gt;b</title>", "<textarea>&lt;/textarea&gt;</textarea>", "<style>a&lt;/style&gt;</style>",
         "<br class=a>", "<a title='\"'>x</a><a title=\"'\">y</a><a title=\"&quot;'\">z</a>", "<p title=\"a`b\">x", "<p title=a=b>x", "<xmp>&lt;/xmp</xmp>", "<svg><![CDATA[a<b]]></svg>"]


def shard(ctx):
    k = 0
    for s in SEEDS:
        for opts in ({}, {"quote_attr_values": "always"}, {"quote_attr_values": "spec", "use_trailing_solidus": True, "space_before_trailing_solidus": False},
                     {"escape_rcdata": True}, {"minimize_boolean_attributes": False, "quote_char": "'"}, {"encoding": "ascii"}):
            k += 1
            if ctx.mine(k):
                run_case(ctx, {"input": s, "options": opts, "frag": True, "container": "div"})
    # every short token sequence, under a rotating option set (bounded-exhaustive over the sequences)
    optsets = [{}, {"quote_attr_values": "always"}, {"quote_attr_values": "spec", "use_trailing_solidus": True}, {"escape_rcdata": True},
               {"minimize_boolean_attributes": False, "quote_char": "'"}, {"encoding": "ascii"}, {"alphabetical_attributes": True}]
    for qi, q in enumerate(gen.token_sequences(ctx, 3, 3, 0.4, suffix="x&amp;<y")):
        run_case(ctx, {"input": q, "options": optsets[qi % len(optsets)], "frag": bool(qi % 2), "container": "div"})
        ctx.count("sequence_cases")
    n, idx = 0, ctx.i
    limit = (40000 if ctx.tier == "quick" else 2000000) // ctx.n
    t_end = time.time() + ctx.time_left()
    while n < limit and time.time() < t_end:
        rng = ctx.rng("rand", idx)
        idx += ctx.n
        n += 1
        r = rng.random()
        data = lexical_input(rng) if r < 0.6 else (gen.soup(rng, 20) if r < 0.85 else gen.nesting(rng))
        case = {"input": data, "options": {k2: rng.choice(v) for k2, v in OPTS.items()}, "frag": rng.random() < 0.6, "container": "div",
                "parse_scripting": rng.random() < 0.3}
        run_case(ctx, case)
        if n <= 3 and ctx.i == 0:
            ctx.sample(case)


def replay(ctx, case):
    run_case(ctx, case)


def finalize(m, v):
    gen.sequences_inconclusive(m)
    c = m["counters"]
    if c.get("streams_retokenised", 0) < 20000:
        m["inconclusive"].append("fewer than 20000 streams re-tokenised")
    if c.get("error_reported", 0) < 200:
        m["inconclusive"].append("the error-reported branch was taken fewer than 200 times")
    cx = m["sets"].get("text_char_contexts", set())
    if len(cx) < 60:
        m["inconclusive"].append("only %d (lexical context, special character) pairs seen in text (< 60)" % len(cx))
    return {"text_context_char_pairs": len(cx)}
