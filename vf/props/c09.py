"""C09 - sanitizer output contains only allow-listed markup, URLs and CSS."""
import time
import warnings

from .. import gen, streams, canon
from ..ref import urlcss
from ..common import short

LEVEL = "exploration"
TECHNIQUE = ("runtime monitoring: allow-list oracle over every token leaving sanitizer.Filter (independent element and "
             "attribute gate, independent WHATWG-URL scheme extractor and data: MIME parser, independent CSS declaration "
             "scanner) + exactly-once token accounting input -> output")
LEVEL_TEXT = ("Held on the executions produced: every token leaving the filter passed the independent gates under the "
              "default and under randomly restricted allow-lists, and the output stream accounted for every input token "
              "exactly once (comments dropped, disallowed tags turned into one text token spelling the tag). Inputs are "
              "parsed soup seeded with obfuscated URLs and CSS in every URI-valued attribute. Exploration.")
BUDGET_S = {"quick": 50, "thorough": 900}
RULE = ("cases = (input markup, walker, allow-list configuration); input is soup / misnesting / directed "
        "<element uri-attribute=OBFUSCATED-URL style=OBFUSCATED-CSS> markup, parsed by the real parser and walked by the "
        "real walkers. distinct_nontrivial = distinct (input, walker, lists) whose sanitizer input contains at least one "
        "tag token the gates had to judge (a URI-valued or style attribute, a disallowed element, or a comment).")
ASSUMPTIONS = [
    "a browser resolves a scheme as the WHATWG URL parser does: strip leading/trailing C0-or-space, drop TAB/LF/CR, ASCII alpha then alnum/+/-/. then ':'",
    "'never url()' is read as: no url( function or url token that could load (a bad-url token loads nothing but is reported too)",
    "allow-lists are the filter's own arguments (defaults read from the module, restrictions generated); they define what is allowed",
    "which attributes are URI-valued is pinned in the check (13 attributes incl. xlink:href and xml:base) unless the caller passes attr_val_is_uri; SVG animation value attributes (to/from/values/by) are not judged (DESIGN 9.5)",
]

SCHEMES = ["javascript", "vbscript", "data", "livescript", "mocha", "http", "https", "mailto", "feed", "view-source", "jar",
           "blob", "about", "file", "x-foo", "ftp", "tel", "JaVaScRiPt", "ＪＡＶＡＳＣＲＩＰＴ", "javascrıpt", "javaſcript",
           "javascript", "javıscript", "javascrKipt", "KAVASCRIPT".replace("K", "K"), "ws", "urn", "magnet"]
REST = ["alert(1)", "//example.com/", "text/html,<script>alert(1)</script>", "text/html;base64,PHNjcmlwdD4=", "image/png;base64,AAAA",
        "image/svg+xml,<svg onload=alert(1)>", ",x", ";base64,AAAA", "text/plain,hello", "TEXT/HTML,x", " text/html,x", "1", "80/x",
        "", "x:y", "javascript:alert(1)", "%0Aalert(1)", "image/png,x", "text/plain;charset=utf-8,x", "text/html;charset=utf-8;base64,x",
        "image/gif;x=y,z", "application/xhtml+xml,x", "text/html\n,x"]
SEPS = [":", ":", ":", "&colon;", "&#58;", "&#x3a;", "&#x3A", "\t:", ":\t", "\n:", " :", "\x00:", "�:", "&Tab;:", "&NewLine;:", "%3A",
        "：", ":​", "\xa0:", "`:"]


def obfuscate(rng, s):
    out = []
    for ch in s:
        r = rng.random()
        if r < 0.08:
            out.append(rng.choice(["\t", "\n", "\r", "&Tab;", "&NewLine;", "&#9;", "&#10;", "&#13;", "&#x0A;"]))
        elif r < 0.12:
            out.append(rng.choice(["\x00", " ", "\xa0", "​", "�", "`", "\x0b", "\x0c", "\x7f", "\x1f", " ", "\x85"]))
        elif r < 0.16:
            out.append(rng.choice(["&#%d;" % ord(ch), "&#x%x;" % ord(ch), "&#%d" % ord(ch)]))
            continue
        if r < 0.25:
            ch = ch.swapcase()
        out.append(ch)
    return "".join(out)


def gen_url(rng):
    sch = rng.choice(SCHEMES)
    if rng.random() < 0.6:
        sch = obfuscate(rng, sch)
    lead = rng.choice(["", "", "", " ", "\t", "\n", "\x01", "\x00", "&#1;", "&#32;", "  \t", "\x1f", "\xa0", "　", "`", "&"])
    return lead + sch + rng.choice(SEPS) + rng.choice(REST) + rng.choice(["", "", " ", "\n", "\x00"])


CSS_VALUES = ["cursor: URL(x)", "cursor: Url(evil_host)", "width: expression(alert)", "cursor: uRl(a_b), auto", "color: URL(x)", "color: red", "background: url(javascript:alert(1))", "background: URL( 'x' )", "background:u\\rl(x)", "width: expression(alert(1))",
              "background-image: url(\"x\")", "color: red; background: url(x)", "x: y", "-moz-binding: url(x)", "color: r\\65 d",
              "background: url( 1 2 )", "background: #fff url(x) no-repeat", "margin: 1px 2em 3% 4pt", "border: 1px solid red",
              "padding: 0 auto", "font-family: 'a b', \"c\"", "color: red; ; ;", "color:red;width:1px", "COLOR: RED", "color : red ;",
              "behavior: url(x.htc)", "color: red /* x */", "color: red; background: url(x", "@import 'x'", "color: rgb(1,2,3)",
              "background: rgb(1%,2%,3%)", "content: '\\'", "color: red;x", "width: calc(1px + 2px)", "color: red; fill: url(#a)",
              "fill: blue", "stroke-width: 2", "background: transparent none", "border-color: #ff0000 aqua", "margin: -1px", "font: 12px/14px serif",
              "color: red\n; width: 1px", "list-style: url(x)", "cursor: url(x), auto", "background:\turl(x)", "color: &#x72;ed", "top: 1px; left: 2px",
              "text-decoration: underline; display: none", "background: url&#40;x&#41;", "background: url&lpar;x&rpar;",
              # shorthand properties (background*, border*, margin*, padding*) with one word that is neither an allowed keyword
              # nor a colour / length: single characters, odd number spellings
              "border: 1px solid z", "padding: x", "margin: 1e9px", "border: 1px r", "margin: 1x2", "padding: -", "margin: 1,5em", "margin: 1/2px",
              "border-top: 1px q red", "background-position: 1_2", "margin: 9:9", "padding: 1 2 3 é", "border-width: 1~", "margin: 12.34px 1.5em",
              "border: thin dotted", "padding: 0 auto 1pt", "background-color: #fff; border: 1px bogus"]

URI_TARGETS = None
# SVG presentation attributes whose value may be a url() reference (pinned, as the URI-valued set below)
PINNED_SVG_REF_ATTRS = frozenset((None, n) for n in ("clip-path", "color-profile", "cursor", "fill", "filter", "marker", "marker-end", "marker-mid",
                                                     "marker-start", "mask", "stroke"))
_URLFN = None


def url_references(value):
    """Targets of the closed url(...) references in an SVG presentation attribute value (function name in any ASCII case,
    optional quotes)."""
    global _URLFN
    if _URLFN is None:
        import re
        _URLFN = re.compile(r"url\s*\(\s*([\"']?)(.*?)\1\s*\)", re.I | re.S)
    return [m.group(2) for m in _URLFN.finditer(value)]
# Which attributes are URI-valued is a fact about HTML/SVG, not a choice of the code under test: pinned here (the 13 the
# pinned tree declares), so that dropping one from the library's own table is seen.  A caller-supplied attr_val_is_uri is
# the caller's declaration and replaces it.
PINNED_URI_ATTRS = frozenset([(canon.XLINK, "href"), (canon.XML, "base"), (None, "action"), (None, "background"), (None, "cite"),
                              (None, "datasrc"), (None, "dynsrc"), (None, "href"), (None, "longdesc"), (None, "lowsrc"), (None, "ping"),
                              (None, "poster"), (None, "src")])


def uri_targets():
    """(markup template, attribute) pairs covering every attribute of attr_val_is_uri."""
    global URI_TARGETS
    if URI_TARGETS is None:
        from html5lib.filters import sanitizer
        t = []
        for ns, name in sorted(PINNED_URI_ATTRS | frozenset(sanitizer.attr_val_is_uri), key=repr):
            if ns is None:
                el = {"href": "a", "src": "img", "action": "form", "cite": "blockquote", "poster": "video", "background": "table",
                      "longdesc": "img", "dynsrc": "img", "lowsrc": "img", "datasrc": "table", "ping": "a"}.get(name, "a")
                t.append(("<%s %s=\"%%s\"%%s>x" % (el, name), name))
            elif ns == canon.XLINK:
                t.append(("<svg><a xlink:%s=\"%%s\"%%s>x</a><use xlink:%s=\"%%s\"></use></svg>" % (name, name), "xlink:" + name))
            elif ns == canon.XML:
                t.append(("<svg xml:%s=\"%%s\"%%s><a xlink:href=\"x\">y</a></svg>" % name, "xml:" + name))
        URI_TARGETS = t
    return URI_TARGETS


MULTI = [("a", ["href", "ping"]), ("img", ["src", "longdesc", "lowsrc", "dynsrc"]), ("video", ["poster", "src"]), ("form", ["action"]),
         ("blockquote", ["cite"]), ("table", ["background", "datasrc"]), ("input", ["src", "formaction"]), ("a", ["href", "xlink:href", "ping"])]
HARMLESS = ["/ok", "x.html", "#frag", "?q=1", "//host/p", "http://[::1", "http://[::1]:x/", "", "http://example.com/", "mailto:a@b", " /ok", "a b"]


def multi_uri_input(rng):
    """Two or more URI-valued attributes on one element: schemeless or malformed values next to forbidden ones,
    in both source orders (iteration order inside the filter is a set order)."""
    el, names = rng.choice(MULTI)
    names = list(names)
    rng.shuffle(names)
    parts = []
    for nm in names[:rng.randint(2, len(names))] if len(names) > 1 else names:
        v = gen_url(rng) if rng.random() < 0.5 else rng.choice(HARMLESS)
        parts.append('%s="%s"' % (nm, v.replace('"', "&quot;")))
    if el in ("a",) and rng.random() < 0.3:
        return "<svg><a %s>x</a></svg>" % " ".join(parts), "multi"
    return "<%s %s>x" % (el, " ".join(parts)), "multi"


def svg_ref_input(rng):
    """SVG presentation attributes holding one to four url() references (remote with any scheme, local #id), in the
    spellings CSS allows."""
    def ref():
        r = rng.random()
        t = "#a" if r < 0.25 else gen_url(rng).replace('"', "").replace(")", "").replace("(", "")
        q = rng.choice(["", "", "'", " "])
        fn = rng.choice(["url", "url", "url", "url ", "URL", "Url"])
        return "%s(%s%s%s)" % (fn, q if q != " " else " ", t, q if q != " " else " ")
    parts = []
    for nm in rng.sample(["fill", "stroke", "clip-path", "marker-start", "marker-mid", "marker-end", "filter", "mask", "cursor"], rng.randint(1, 3)):
        v = " ".join([ref() for _ in range(rng.randint(1, 4))] + rng.sample(["red", "none", "x"], rng.randint(0, 1)))
        parts.append('%s="%s"' % (nm, v.replace('"', "&quot;")))
    el = rng.choice(["rect", "path", "g", "circle", "use", "text"])
    return "<svg><%s %s>x</%s></svg>" % (el, " ".join(parts), el), "svg-ref"


def directed_input(rng):
    r0 = rng.random()
    if r0 < 0.12:
        return svg_ref_input(rng)
    if r0 < 0.4:
        return multi_uri_input(rng)
    tpl, attr = rng.choice(uri_targets())
    url = gen_url(rng).replace('"', "&quot;")
    style = ""
    if rng.random() < 0.5:
        style = ' style="%s"' % rng.choice(CSS_VALUES).replace('"', "&quot;")
    n = tpl.count("%s")
    args = [url, style] + [url] * (n - 2)
    return tpl % tuple(args[:n]), attr


def restrict(rng):
    """Random restriction of the allow-lists -> kwargs for sanitizer.Filter."""
    from html5lib.filters import sanitizer as S
    kw = {}

    def sub(s, keep=None):
        s = sorted(s, key=repr)
        r = rng.random()
        if r < 0.15:
            out = [rng.choice(s)]
        elif r < 0.3:
            out = []
        else:
            out = [x for x in s if rng.random() < 0.6]
        return frozenset(out)
    for name in ("allowed_elements", "allowed_attributes", "allowed_css_properties", "allowed_css_keywords",
                 "allowed_svg_properties", "allowed_protocols", "allowed_content_types", "attr_val_is_uri"):
        if rng.random() < 0.45:
            kw[name] = sub(getattr(S, name))
    if rng.random() < 0.3:
        kw["allowed_protocols"] = frozenset(x for x in kw.get("allowed_protocols", S.allowed_protocols) if x != "data") | (
            frozenset(["javascript"]) if rng.random() < 0.2 else frozenset())
    return kw


def spelled(tok):
    return tok


def judge(ctx, case, tokens, kw, label):
    from html5lib.filters import sanitizer as S
    L = {n: kw.get(n, getattr(S, n)) for n in ("allowed_elements", "allowed_attributes", "allowed_css_properties",
                                                "allowed_css_keywords", "allowed_svg_properties", "allowed_protocols",
                                                "allowed_content_types", "attr_val_is_uri")}
    if "attr_val_is_uri" not in kw:
        L["attr_val_is_uri"] = PINNED_URI_ATTRS | frozenset(S.attr_val_is_uri)
    inp = streams.copy_tokens(tokens)
    with warnings.catch_warnings():
        warnings.simplefilter("ignore")
        try:
            out = list(S.Filter(streams.copy_tokens(tokens), **kw))
        except Exception as e:
            KNOWN_NS = (None, canon.XLINK, canon.XML, canon.XMLNS, canon.HTML, canon.SVG, canon.MATHML)
            odd = [k for t in inp if isinstance(t.get("data"), dict) for k in t["data"] if k[0] not in KNOWN_NS]
            if isinstance(e, KeyError) and odd and str(e).strip("'\"") in [k[0] for k in odd]:
                ctx.known_finding("clark-named-attribute-keyerror", case,
                                  "%s: KeyError(%s): a disallowed element carries an attribute literally named {ns}local, which the etree walker reports as namespaced" % (label, e))
                return None
            ctx.violation("sanitizer-raised:" + type(e).__name__, case, "%s: %s: %s" % (label, type(e).__name__, short(str(e), 200)))
            return None
    interesting = False
    # exactly-once accounting
    exp_inp = [t for t in inp if t["type"] != "Comment"]
    if any(t["type"] == "Comment" for t in inp):
        interesting = True
    if len(out) != len(exp_inp):
        ctx.violation("token-lost-or-duplicated", case, "%s: %d non-comment tokens in, %d out" % (label, len(exp_inp), len(out)))
        return None
    for a, b in zip(exp_inp, out):
        ty = a["type"]
        if ty in ("StartTag", "EndTag", "EmptyTag"):
            ns, name = a["namespace"], a["name"]
            is_allowed = (ns, name) in L["allowed_elements"] or (ns is None and (canon.HTML, name) in L["allowed_elements"])
            if b["type"] == "Characters":
                interesting = True
                ctx.count("tags_turned_into_text")
                want_prefix = "</%s>" % name if ty == "EndTag" else "<%s" % name
                if not b["data"].startswith(want_prefix) or not b["data"].endswith(">"):
                    ctx.violation("escaped-tag-does-not-spell-the-tag", case, "%s: %r became %r" % (label, a, b["data"][:80]))
                    return None
                if is_allowed:
                    ctx.count("allowed_tag_escaped")  # over-removal is not a violation
                continue
            if b["type"] != ty or b["name"] != name or b["namespace"] != ns:
                ctx.violation("tag-token-altered", case, "%s: %r -> %r" % (label, a, b))
                return None
            if not is_allowed:
                ctx.violation("disallowed-element-passed", case, "%s: element (%r, %r) is not on the allow-list" % (label, ns, name))
                return None
            ctx.count("tags_passed")
            if ty == "EndTag":
                continue
            for k, v in b["data"].items():
                if k not in a["data"]:
                    ctx.violation("attribute-invented", case, "%s: %r" % (label, k))
                    return None
                if k not in L["allowed_attributes"]:
                    ctx.violation("disallowed-attribute-passed", case, "%s: attribute %r on %s" % (label, k, name))
                    return None
                if k in L["attr_val_is_uri"]:
                    interesting = True
                    ctx.count("uri_attributes_judged")
                    ctx.add("uri_attrs_seen", "%s" % (k[1] if k[0] is None else k[0].rsplit("/", 1)[-1] + ":" + k[1]))
                    sch = urlcss.url_scheme(v)
                    if sch is not None:
                        ctx.count("uri_values_with_scheme_kept")
                        if sch not in L["allowed_protocols"]:
                            ctx.violation("forbidden-scheme-kept:" + sch[:20], case,
                                          "%s: %s=%r keeps scheme %r (allowed: %d protocols)" % (label, k[1], v[:80], sch, len(L["allowed_protocols"])))
                            return None
                        if sch == "data":
                            ess = urlcss.data_mime_essence(v)
                            if ess is not None and ess not in L["allowed_content_types"]:
                                ctx.violation("forbidden-data-content-type-kept", case,
                                              "%s: %s=%r is a data: URL of type %r" % (label, k[1], v[:80], ess))
                                return None
                if k in PINNED_SVG_REF_ATTRS and "svg_attr_val_allows_ref" not in kw:
                    # a url() reference is a URL as well: none may keep a scheme outside the allowed protocols
                    for target in url_references(v):
                        ctx.count("svg_url_references_judged")
                        sch = urlcss.url_scheme(target)
                        if sch is not None and sch not in L["allowed_protocols"]:
                            ctx.violation("svg-reference-keeps-forbidden-scheme:" + sch[:15], case,
                                          "%s: %s=%r keeps url(%r)" % (label, k[1], v[:100], target[:60]))
                            return None
                if k == (None, "style"):
                    interesting = True
                    ctx.count("style_values_judged")
                    why = urlcss.css_problem(v, L["allowed_css_properties"], L["allowed_css_keywords"], L["allowed_svg_properties"])
                    if why:
                        ctx.violation("style-keeps-disallowed-css", case, "%s: style=%r: %s (input style %r)" % (
                            label, v[:100], why, a["data"].get(k, "")[:100]))
                        return None
                elif v != a["data"][k] and k not in S.svg_attr_val_allows_ref:
                    ctx.violation("attribute-value-altered", case, "%s: %r: %r -> %r" % (label, k, a["data"][k][:60], v[:60]))
                    return None
            for k in a["data"]:
                if k in L["attr_val_is_uri"] and k not in b["data"]:
                    ctx.count("uri_attributes_removed")
        else:
            if a != b:
                ctx.violation("non-tag-token-altered", case, "%s: %r -> %r" % (label, a, b))
                return None
    return interesting


def run_case(ctx, case):
    from .. import h5
    import random
    data = case["input"]
    kwspec = case.get("lists")
    for kind in ("etree", "dom"):
        try:
            if case.get("frag"):
                flat, p, tree = h5.parse_frag(data, container=case.get("container") or "div", kind=kind, ns=case.get("ns", True))
            else:
                flat, p, tree = h5.parse_doc(data, kind="etree-full" if kind == "etree" else "dom", ns=case.get("ns", True))
            tokens = list(h5.walker(kind)(tree))
            if not case.get("ns", True):
                ctx.count("streams_with_unnamespaced_html_elements")
        except Exception:
            ctx.count("parse_or_walk_raised")
            continue
        if any(t["type"] == "SerializeError" for t in tokens):
            ctx.count("streams_with_serialize_error_skipped")
            continue
        kw = {}
        if kwspec is not None:
            kw = restrict(random.Random(kwspec))
        r = judge(ctx, case, tokens, kw, kind + "-walker")
        ctx.case([data, kind, kwspec, case.get("frag")], nontrivial=bool(r))
        ctx.count("streams:" + ("default-lists" if not kw else "restricted-lists"))


SEEDS = ["<a href=\"javascript://\u2100/%0aalert(1)\">x</a>", "<img src=\"javascript://\uff03/x\">", "<a href=\"JaVa&#9;Script://\u2100/%0aalert(1)\">x</a>",
         "<a href=\"vbscript://x\uff1ay/z\">x</a>", "<p style=\"cursor: URL(x)\">x", "<p style=\"width: expression(alert)\">x", "<a href=\"/ok\" ping=\"javascript:alert(1)\">x</a>", "<a ping=\"/ok\" href=\"javascript:alert(1)\">x</a>",
         "<a ping=\"javascript:alert(1)\" href=\"http://[::1\">x</a>", "<a href=\"javascript:alert(1)\" ping=\"http://[::1\">x</a>",
         "<img src=\"x.png\" longdesc=\"vbscript:x\" lowsrc=\"data:text/html,x\" dynsrc=\"\">", "<a href=\"javascript:alert(1)\">x</a>", "<a href=\"jav&#x09;ascript:alert(1)\">x", "<a href=\" &#14; javascript:alert(1)\">x",
         "<img src=\"data:text/html,x\">", "<img src=\"data:image/png;base64,AAAA\">", "<img src=\"data:,x\">", "<a href=\"javascript&colon;alert(1)\">x",
         "<svg><a xlink:href=\"javascript:alert(1)\">x</a></svg>", "<svg><use xlink:href=\"data:image/svg+xml,x\"></use>",
         "<svg xml:base=\"javascript:x\"><a xlink:href=\"#a\">", "<p style=\"background: url(javascript:alert(1))\">x", "<!--c--><script>x</script><p onclick=x>y",
         "<a href=\"feed:javascript:alert(1)\">x", "<a href=\"JaVaScRiPt:alert(1)\">x", "<a href=\"\x01javascript:alert(1)\">", "<math><mi xlink:href=\"javascript:x\">y",
         "<a href=\"http://[::1\">x", "<a href=\"//example.com/\">x", "<a href=\"?javascript:x\">y", "<form action=\"vbscript:x\"><input formaction=\"javascript:x\">",
         "<p style=\"color: red; background: u\\rl(x)\">", "<svg><rect fill=\"url(javascript:x)\" style=\"fill: url(x)\"/>"]


def shard(ctx):
    import random
    k = 0
    for s in SEEDS:
        for lists in (None, 1, 2, 3):
            k += 1
            if ctx.mine(k):
                run_case(ctx, {"input": s, "lists": lists, "frag": True, "container": "div"})
                if lists in (None, 2):
                    # HTML elements reported without a namespace (parser built with namespaceHTMLElements=False)
                    run_case(ctx, {"input": s, "lists": lists, "frag": True, "container": "div", "ns": False})
    n, idx = 0, ctx.i
    limit = (70000 if ctx.tier == "quick" else 3000000) // ctx.n
    t_end = time.time() + ctx.time_left()
    while n < limit and time.time() < t_end:
        rng = ctx.rng("rand", idx)
        idx += ctx.n
        n += 1
        r = rng.random()
        if r < 0.6:
            data, attr = directed_input(rng)
            if rng.random() < 0.3:
                data = data + gen.soup(rng, 6)
        elif r < 0.85:
            data = gen.soup(rng, 20)
        else:
            data = gen.nesting(rng)
        lists = None if rng.random() < 0.6 else rng.randrange(10 ** 6)
        case = {"input": data, "lists": lists, "frag": rng.random() < 0.7, "container": "div"}
        if rng.random() < 0.15:
            case["ns"] = False
        run_case(ctx, case)
        if n <= 3 and ctx.i == 0:
            ctx.sample(case)


def replay(ctx, case):
    run_case(ctx, case)


def finalize(m, v):
    c = m["counters"]
    if c.get("uri_attributes_judged", 0) + c.get("uri_attributes_removed", 0) < 20000:
        m["inconclusive"].append("fewer than 20000 URI-valued attributes went through the gate")
    if c.get("uri_values_with_scheme_kept", 0) < 1000:
        m["inconclusive"].append("fewer than 1000 kept URI values with a scheme were judged")
    if c.get("style_values_judged", 0) < 2000:
        m["inconclusive"].append("fewer than 2000 style values judged")
    if c.get("streams:restricted-lists", 0) < 2000:
        m["inconclusive"].append("fewer than 2000 streams under restricted allow-lists")
    if len(m["sets"].get("uri_attrs_seen", ())) < 8:
        m["inconclusive"].append("fewer than 8 distinct URI-valued attributes exercised")
    return {}
