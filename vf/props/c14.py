"""C14 - every character reference decodes to the standard's replacement."""
import html
import time

from ..ref import charref
from ..common import short

LEVEL = "exploration"
EXHAUSTIVE = {"quick": False, "thorough": True}
TECHNIQUE = ("runtime monitoring by enumeration: every named reference x spelling x follower class x context and every "
             "numeric value x radix spelling x semicolon, judged against an independent decoder built on "
             "html.entities.html5 / cp1252 and cross-checked with html.unescape; serializer entity round trip")
LEVEL_TEXT = ("Finite domain. Thorough: all 2231 names x {as is, ';' removed} x 14 followers x 5 contexts and every numeric "
              "value 0..0x110000 (+ overflow samples) x {dec, x, X} x {';', none}, in data and in attribute context: complete "
              "enumeration (exhaustive). Quick: all names x 6 followers x 5 contexts, all numeric values in data context "
              "with ';' plus boundary sets for the other spellings. Reverse direction sampled over 4 encodings.")
BUDGET_S = {"quick": 40, "thorough": 900}
RULE = ("cases = reference spellings (name or numeric value, with/without ';', follower, context in {data, RCDATA "
        "textarea, RCDATA title, double-, single-, un-quoted attribute}) decoded by the real parser via parseFragment; "
        "expected = R-charref. Numeric spellings are batched 2048 per fragment and bisected on mismatch. "
        "distinct_nontrivial = distinct spellings (every spelling is a distinct case).")
ASSUMPTIONS = [
    "html.entities.html5 is the standard's table (2231 names incl. 106 legacy names without ';')",
    "cp1252 codec gives the C1 replacement table; 0x81 0x8D 0x8F 0x90 0x9D are kept as controls",
    "characters that the Python codec itself does not round-trip (shift_jis: U+00A5, U+203E) are excluded from the reverse direction",
    "html.unescape is used only as a cross-check in the domain where it follows the standard (named references in data)",
]

FOLLOWERS_ALL = ["", " ", "<", "&", "=", "a", "Z", "0", ";", "#", '"', "'", "-", "é"]
FOLLOWERS_QUICK = ["", "=", "a", "0", ";", "&"]
CONTEXTS = ["data", "textarea", "title", "dq", "sq", "uq"]


def extract_text(flat):
    return "".join(e[1] for e in flat if e[0] == "T")


def run_spelling(ctx, payload, context):
    """Parse payload in the context with the real parser; return decoded string as html5lib sees it."""
    from .. import h5
    if context == "data":
        flat, p, t = h5.parse_frag(payload, container="div")
        return extract_text(flat)
    if context in ("textarea", "title"):
        flat, p, t = h5.parse_frag(payload, container=context)
        return extract_text(flat)
    q = {"dq": '"', "sq": "'", "uq": ""}[context]
    flat, p, t = h5.parse_frag("<a b=%s%s%s>" % (q, payload, q), container="div")
    for e in flat:
        if e[0] == "S" and e[2] == "a":
            for k, v in e[3]:
                if k == "b":
                    return v
            return None
    return None


def expected_for(payload, context):
    if context in ("data", "textarea", "title"):
        s = payload
        if context == "data" and "<" in s:
            # '<' + EOF or '<' + non-letter is text in the data state; our payloads never put a letter after '<'
            pass
        return charref.decode(s, False)
    term = {"dq": '"', "sq": "'", "uq": None}[context]
    s = payload
    if term:
        i = s.find(term)
        if i >= 0:
            s = s[:i]
    else:
        for i, c in enumerate(s):
            if c in " \t\n\x0c\r>":
                s = s[:i]
                break
    return charref.decode(s, True)


def judge_named(ctx, name, follower, context):
    payload = "x&" + name + follower
    if context == "data" and follower == "<":
        pass
    exp = expected_for(payload, context)
    try:
        got = run_spelling(ctx, payload, context)
    except Exception as e:
        ctx.violation("parse-raised", {"payload": payload, "context": context}, repr(e))
        return
    ctx.case([payload, context])
    ctx.count("named_spellings")
    if context == "data" and "<" not in payload:
        # cross-check the oracle itself
        u = html.unescape(payload)
        if u != exp:
            ctx.count("oracle_disagreements")
            ctx.add("oracle_disagreement_samples", short(payload, 40))
            return
        ctx.count("oracle_cross_checked")
    if got != exp:
        ctx.violation("named:%s" % context, {"payload": payload, "context": context},
                      "%r in %s: html5lib %r, standard %r" % (payload, context, got, exp))


def numeric_spelling(v, form, semi):
    if form == "d":
        s = "&#%d" % v
    elif form == "x":
        s = "&#x%x" % v
    else:
        s = "&#X%X" % v
    return s + (";" if semi else "")


def judge_numeric_batch(ctx, items, context):
    """items: list of (v, form, semi).  One fragment for the whole batch; bisect on mismatch."""
    sep = "|"
    payload = sep.join(numeric_spelling(*it) for it in items)
    exp = expected_for(payload, context)
    try:
        got = run_spelling(ctx, payload, context)
    except Exception as e:
        ctx.violation("parse-raised", {"payload": payload[:200], "context": context}, repr(e))
        return
    if got == exp:
        ctx.count("numeric_spellings", len(items))
        ctx.evaluations += len(items)
        return
    if len(items) == 1:
        ctx.count("numeric_spellings", 1)
        ctx.evaluations += 1
        v, form, semi = items[0]
        klass = "numeric:" + ("zero" if v == 0 else "surrogate" if 0xD800 <= v <= 0xDFFF else "c1" if 0x80 <= v <= 0x9F
                              else "beyond" if v > 0x10FFFF else "control" if v < 0x20 else "other")
        ctx.violation(klass, {"payload": payload, "context": context},
                      "%r in %s: html5lib %r, standard %r" % (payload, context, got, exp))
        return
    h = len(items) // 2
    judge_numeric_batch(ctx, items[:h], context)
    judge_numeric_batch(ctx, items[h:], context)


def boundary_values():
    vals = set(range(0, 0x300))
    for c in (0xD7FF, 0xD800, 0xDBFF, 0xDC00, 0xDFFF, 0xE000, 0xFDCF, 0xFDD0, 0xFDEF, 0xFDF0, 0xFFFD, 0xFFFE, 0xFFFF):
        vals.add(c)
    for plane in range(0, 17):
        for off in (0, 1, 0xFFFD, 0xFFFE, 0xFFFF):
            vals.add(plane * 0x10000 + off)
    vals.update([0x10FFFF, 0x110000, 0x110001, 2 ** 31 - 1, 2 ** 31, 2 ** 32, 2 ** 32 + 65, 2 ** 64, 10 ** 40])
    return sorted(vals)


def reverse_direction(ctx, rng_family, n_other):
    """Text serialised with named-entity replacement for an output encoding decodes back to the same text."""
    from .. import h5
    from html5lib import serializer
    by_char = {}
    for k, v in charref.NAMED.items():
        if len(v) == 1 and k.endswith(";"):
            by_char.setdefault(v, k)
    chars = sorted(by_char)
    rng = ctx.rng(rng_family, 0)
    others = []
    while len(others) < n_other:
        cp = rng.randrange(0x20, 0x30000)
        if 0xD800 <= cp <= 0xDFFF or 0xFDD0 <= cp <= 0xFDEF or (cp & 0xFFFE) == 0xFFFE or 0x7F <= cp <= 0x9F:
            continue
        others.append(chr(cp))
    allc = [c for c in chars if c not in "\r\x00" and not (0xD800 <= ord(c) <= 0xDFFF)] + others
    k = 0
    for enc in ("ascii", "latin-1", "koi8-r", "shift_jis", "utf-8"):
        for st in range(0, len(allc), 64):
            k += 1
            if not ctx.mine(k):
                continue
            chunk = []
            for c in allc[st:st + 64]:
                try:
                    if c.encode(enc).decode(enc) != c:
                        ctx.count("codec_itself_not_faithful_skipped")  # e.g. shift_jis maps U+00A5 to 0x5C
                        continue
                except UnicodeError:
                    pass
                chunk.append(c)
            # the characters back to back, and each one followed by every class of character that matters to a reader
            # of the reference written for it (';', a letter, a digit, '=', a space)
            for text in ["a" + "".join(chunk) + "z"] + ["a" + "".join(c + f for c in chunk) + "z" for f in (";", "b", "7", "=", " ", "x;")]:
                try:
                    s = serializer.HTMLSerializer()
                    b = s.render([{"type": "Characters", "data": text}], encoding=enc)
                    flat, p, t = h5.parse_frag(b.decode(enc), container="div")
                except Exception as e:
                    ctx.violation("reverse-raised", {"text": text, "encoding": enc}, repr(e))
                    continue
                got = extract_text(flat)
                ctx.case(["rev", text, enc])
                ctx.count("reverse_chars", len(text))
                if got != text:
                    i = next((i for i in range(min(len(got), len(text))) if got[i] != text[i]), min(len(got), len(text)))
                    ctx.violation("reverse-direction", {"text": text, "encoding": enc},
                                  "encoding %s: char %r came back as %r (bytes %r)" % (enc, text[i:i + 1], got[i:i + 3], b[:80]))
                    break


def run_case(ctx, case):
    if "text" in case:
        from .. import h5
        from html5lib import serializer
        b = serializer.HTMLSerializer().render([{"type": "Characters", "data": case["text"]}], encoding=case["encoding"])
        flat, p, t = h5.parse_frag(b.decode(case["encoding"]), container="div")
        ctx.case(["rev", case["text"], case["encoding"]])
        if extract_text(flat) != case["text"]:
            ctx.violation("reverse-direction", case, "%r -> %r" % (case["text"][:60], extract_text(flat)[:60]))
        return
    payload, context = case["payload"], case["context"]
    exp = expected_for(payload, context)
    got = run_spelling(ctx, payload, context)
    ctx.case([payload, context])
    if got != exp:
        ctx.violation("replayed", case, "%r in %s: html5lib %r, standard %r" % (payload[:80], context, got, exp))


def shard(ctx):
    names = sorted(charref.NAMED)
    followers = FOLLOWERS_QUICK if ctx.tier == "quick" else FOLLOWERS_ALL
    spell = []
    for nm in names:
        spell.append(nm)
        if nm.endswith(";") and nm[:-1] not in charref.NAMED:
            spell.append(nm[:-1])  # ';' of a ';'-only name removed: must not match (or match a shorter legacy name)
    # longest-prefix traps
    spell += ["notit;", "notin", "notinx", "noti", "ampx", "am", "a", "AMP", "AMPx;", "ltx", "Lt", "copyr", "notinva;x",
              "nbspx", "Aacut", "aacutee;", "xnot;", "not;", "not", "NOT;", "ngeqq", "ngeqqq;"]
    k = 0
    for sp in spell:
        for fo in followers:
            for cx in CONTEXTS:
                k += 1
                if ctx.mine(k):
                    judge_named(ctx, sp, fo, cx)
    ctx.add("named_product", "%d spellings x %d followers x %d contexts" % (len(spell), len(followers), len(CONTEXTS)))
    if ctx.i == 0:
        ctx.sample({"payload": "x&notit;", "context": "data", "expected": charref.decode("x&notit;")})
        ctx.sample({"payload": "x&amp=", "context": "dq", "expected": charref.decode("x&amp=", True)})
        ctx.sample({"numeric": "&#x80;", "expected": charref.decode("&#x80;")})
    # numeric
    B = 2048
    if ctx.tier == "thorough":
        combos = [(f, s, c) for f in "dxX" for s in (True, False) for c in ("data", "dq")]
        values = list(range(0, 0x110001)) + [2 ** 31, 2 ** 32, 2 ** 32 + 65, 2 ** 64, 10 ** 40]
    else:
        combos = [("d", True, "data")]
        values = list(range(0, 0x110001))
    kb = 0
    for f, s, c in combos:
        for st in range(0, len(values), B):
            kb += 1
            if ctx.mine(kb):
                judge_numeric_batch(ctx, [(v, f, s) for v in values[st:st + B]], c)
    bv = boundary_values()
    for f in "dxX":
        for s in (True, False):
            for c in ("data", "textarea", "dq", "sq", "uq"):
                kb += 1
                if ctx.mine(kb):
                    for st in range(0, len(bv), 256):
                        judge_numeric_batch(ctx, [(v, f, s) for v in bv[st:st + 256]], c)
    # no-digit and odd spellings
    odd = ["&#", "&#;", "&#x", "&#x;", "&#X", "&#xg", "&#-1;", "&# 1;", "&#x 1;", "&#0x41;", "&#1a;", "&#xFFFFFFFFFF;",
           "&#00000065;", "&#x0000041", "&#65x", "&#x41g", "&", "&;", "& ", "&&", "&&amp;", "&a", "&#65&#66",
           # very many digits (leading zeros do not change the value; long values are out of range)
           "&#" + "0" * 5000 + "65;", "&#x" + "0" * 5000 + "41;", "&#" + "9" * 4301 + ";", "&#" + "1" * 20000, "&#x" + "f" * 5000 + ";",
           "&#" + "0" * 4400 + ";", "&#999999999;", "&#0000000001114111;", "&#1114112;", "&#x00110000;"]
    for o in odd:
        for c in CONTEXTS:
            kb += 1
            if ctx.mine(kb):
                payload = "x" + o + "y"
                exp = expected_for(payload, c)
                got = run_spelling(ctx, payload, c)
                ctx.case([payload, c])
                ctx.count("odd_spellings")
                if got != exp:
                    ctx.violation("odd:%s" % c, {"payload": payload, "context": c},
                                  "%r in %s: html5lib %r, standard %r" % (payload, c, got, exp))
    # RCDATA: a reference must leave the tokenizer in RCDATA - markup-looking text after it stays text
    for context in ("textarea", "title"):
        for ref in ("&amp;", "&amp", "&#65;", "&#x41", "&bogus;", "&lt;", "&", "&#;", "&notit;", "&not"):
            for tail in ("<b>x</b>", "<!--c-->y", "<i", "</b>z", "<svg>", "<textarea>", "<title>", "<!DOCTYPE a>"):
                kb += 1
                if not ctx.mine(kb):
                    continue
                payload = "x" + ref + tail
                exp = charref.decode(payload, False)
                try:
                    got = run_spelling(ctx, payload, context)
                except Exception as e:
                    ctx.violation("parse-raised", {"payload": payload, "context": context}, repr(e))
                    continue
                ctx.case([payload, context])
                ctx.count("rcdata_reference_then_markup")
                if got != exp:
                    ctx.violation("rcdata-after-reference:%s" % context, {"payload": payload, "context": context},
                                  "%r in <%s>: text %r, expected %r" % (payload, context, got, exp))
    reverse_direction(ctx, "rev", 3000 if ctx.tier == "quick" else 20000)


def replay(ctx, case):
    run_case(ctx, case)


def finalize(m, v):
    c = m["counters"]
    nspell = 2231 + 22
    if c.get("named_spellings", 0) < nspell * (len(FOLLOWERS_QUICK) if v.tier == "quick" else len(FOLLOWERS_ALL)) * 6:
        m["inconclusive"].append("named enumeration incomplete: %d spellings" % c.get("named_spellings", 0))
    need = 0x110001 if v.tier == "quick" else 0x110001 * 12
    if c.get("numeric_spellings", 0) < need:
        m["inconclusive"].append("numeric enumeration incomplete: %d < %d" % (c.get("numeric_spellings", 0), need))
    if c.get("oracle_disagreements", 0):
        m["inconclusive"].append("R-charref and html.unescape disagree on %d named spellings: oracle not trusted there"
                                 % c["oracle_disagreements"])
    if c.get("reverse_chars", 0) < 5000:
        m["inconclusive"].append("reverse direction saw fewer than 5000 characters")
    return {"numeric_spellings_distinct": c.get("numeric_spellings", 0)}
