"""C19 - SAX adapter delivers a well-nested event stream equal to the tree."""
import time
import xml.sax.handler

from .. import canon, streams, gen
from ..common import short

LEVEL = "exploration"
TECHNIQUE = ("runtime monitoring: recording ContentHandler + nesting automaton over the recorded event log + "
             "rebuild-and-compare with the directly traversed tree")
LEVEL_TEXT = ("Held on the executions produced: for every walked tree the recorded SAX event log had exactly one "
              "startDocument/endDocument pair, balanced prefix mappings, properly nested element events, and rebuilt "
              "to the same elements, namespaces, attributes and text as the tree read by direct traversal. Exploration.")
BUDGET_S = {"quick": 40, "thorough": 600}
RULE = ("cases = (input, walker in {etree, dom}, document|fragment); the tree is parsed by the real parser, walked by the "
        "real walker and passed to to_sax with a recording handler; the offline checker judges the event log. "
        "distinct_nontrivial = distinct (input, walker, mode) whose log has at least 10 events.")
ASSUMPTIONS = [
    "comments and the doctype are omitted by design; text separated only by a comment is merged before comparison",
    "attributes are compared as a mapping (ns, local) -> value; qualified names are checked for the 12 adjustable foreign attributes only",
]

FOREIGN_QNAMES = {
    (canon.XLINK, "actuate"): "xlink:actuate", (canon.XLINK, "arcrole"): "xlink:arcrole",
    (canon.XLINK, "href"): "xlink:href", (canon.XLINK, "role"): "xlink:role", (canon.XLINK, "show"): "xlink:show",
    (canon.XLINK, "title"): "xlink:title", (canon.XLINK, "type"): "xlink:type", (canon.XML, "base"): "xml:base",
    (canon.XML, "lang"): "xml:lang", (canon.XML, "space"): "xml:space", (canon.XMLNS, "xmlns"): "xmlns",
    (canon.XMLNS, "xlink"): "xmlns:xlink",
}


class Recorder(xml.sax.handler.ContentHandler):
    def __init__(self):
        self.log = []

    def startDocument(self):
        self.log.append(("startDocument",))

    def endDocument(self):
        self.log.append(("endDocument",))

    def startPrefixMapping(self, prefix, uri):
        self.log.append(("startPrefixMapping", prefix, uri))

    def endPrefixMapping(self, prefix):
        self.log.append(("endPrefixMapping", prefix))

    def startElementNS(self, name, qname, attrs):
        items = []
        qn = []
        for k in attrs.getNames():
            items.append((k, attrs.getValue(k)))
            if k in FOREIGN_QNAMES:
                try:
                    qn.append((k, attrs.getQNameByName(k)))
                except Exception as e:
                    qn.append((k, "raised " + type(e).__name__))
        self.log.append(("startElementNS", name, qname, tuple(items), tuple(qn)))

    def endElementNS(self, name, qname):
        self.log.append(("endElementNS", name, qname))

    def characters(self, content):
        self.log.append(("characters", content))

    def ignorableWhitespace(self, ws):
        self.log.append(("ignorableWhitespace", ws))

    def processingInstruction(self, target, data):
        self.log.append(("processingInstruction", target, data))

    def skippedEntity(self, name):
        self.log.append(("skippedEntity", name))

    def startElement(self, name, attrs):
        self.log.append(("startElement", name))

    def endElement(self, name):
        self.log.append(("endElement", name))


def check_log(log):
    """Offline checker over the recorded event log -> (problems, rebuilt flat)."""
    bad = []
    if not log or log[0] != ("startDocument",):
        bad.append(("no-startDocument-first", repr(log[:1])))
    if not log or log[-1] != ("endDocument",):
        bad.append(("no-endDocument-last", repr(log[-1:])))
    if sum(1 for e in log if e[0] == "startDocument") != 1 or sum(1 for e in log if e[0] == "endDocument") != 1:
        bad.append(("document-events-not-exactly-once", ""))
    stack = []
    prefixes = []
    bound = {}
    out = []
    for i, e in enumerate(log):
        k = e[0]
        if k == "startPrefixMapping":
            if stack:
                bad.append(("prefix-mapping-inside-element", repr(e)))
            prefixes.append(e[1])
            bound[e[1]] = e[2]
        elif k == "endPrefixMapping":
            if stack:
                bad.append(("prefix-mapping-inside-element", repr(e)))
            if e[1] in prefixes:
                prefixes.remove(e[1])
            else:
                bad.append(("unbalanced-prefix-mapping", repr(e)))
        elif k == "startElementNS":
            (ns, name), qname, items, qn = e[1], e[2], e[3], e[4]
            # XML namespaces: a prefix (or the default, None) that the stream has bound must resolve to the namespace the
            # event itself states for the element
            pfx = qname.split(":", 1)[0] if isinstance(qname, str) and ":" in qname and qname.split(":", 1)[0] in bound else None
            if pfx in bound and ns is not None and bound[pfx] != ns:
                bad.append(("qname-resolves-to-another-namespace", "element %r qname %r: prefix %r is bound to %r" % ((ns, name), qname, pfx, bound[pfx])))
            stack.append((ns, name))
            out.append(("S", ns, name, tuple(sorted((streams.attr_key(a[0], a[1]), v) for a, v in items))))
            for key, got in qn:
                if got != FOREIGN_QNAMES[key]:
                    bad.append(("foreign-attribute-qname", "%r -> %r" % (key, got)))
                elif isinstance(got, str) and ":" in got and bound.get(got.split(":", 1)[0]) != key[0]:
                    # the prefix written in the attribute's qualified name must be one the stream has declared, for that namespace
                    bad.append(("foreign-attribute-prefix-not-declared", "%r has qname %r but prefix is bound to %r" % (key, got, bound.get(got.split(":", 1)[0]))))
        elif k == "endElementNS":
            if not stack:
                bad.append(("end-without-start", repr(e)))
            else:
                top = stack.pop()
                if top != e[1]:
                    bad.append(("badly-nested", "end %r closes %r" % (e[1], top)))
            out.append(("E",))
        elif k == "characters":
            if not isinstance(e[1], str):
                bad.append(("characters-not-str", repr(e)))
            else:
                canon._text(out, e[1])
        elif k in ("startDocument", "endDocument"):
            if stack or (k == "endDocument" and prefixes):
                bad.append(("document-event-misplaced-or-open-prefix", "%s stack=%r prefixes=%r" % (k, stack[-2:], prefixes)))
        else:
            bad.append(("unexpected-event:" + k, repr(e)))
    if stack:
        bad.append(("unclosed-elements", repr(stack[-3:])))
    return bad, out


def expected_from(flat):
    out = []
    for e in flat:
        if e[0] in ("C", "D", "doc", "frag"):
            continue
        if e[0] == "T":
            canon._text(out, e[1])
        elif e[0] == "S":
            out.append(("S", e[1], e[2], tuple(sorted(e[3]))))
        else:
            out.append(e)
    return out


def run_case(ctx, case):
    from .. import h5
    from html5lib.treeadapters import sax
    data, frag = case["input"], case["frag"]
    nsflag = bool(case.get("ns", True))
    for kind in ("etree", "dom"):
        try:
            if frag:
                flat, p, tree = h5.parse_frag(data, container=case["container"], kind=kind, ns=nsflag)
            else:
                flat, p, tree = h5.parse_doc(data, kind="etree-full" if kind == "etree" else "dom", ns=nsflag)
            if not nsflag:
                ctx.count("trees_with_unnamespaced_html_elements")
        except Exception:
            ctx.count("parse_raised")
            return
        rec = Recorder()
        tokens = list(h5.walker(kind)(tree))
        has_err = [i for i, t in enumerate(tokens) if t.get("type") == "SerializeError"]
        try:
            sax.to_sax(tokens, rec)
        except Exception as e:
            ctx.case([data, kind, frag, case.get("container")], True)
            if isinstance(e, AssertionError) and has_err and all(
                    tokens[i - 1].get("name") == "event-source" for i in has_err):
                ctx.known_finding("void-table-event-source-children", case,
                                  "to_sax raises AssertionError on the walker's SerializeError token (event-source with children)")
            else:
                ctx.violation("to_sax-raised:" + type(e).__name__, case, "%s walker: %s: %s" % (kind, type(e).__name__, short(str(e), 200)))
            continue
        log = rec.log
        ctx.case([data, kind, frag, case.get("container")], nontrivial=len(log) >= 10)
        ctx.count("events", len(log))
        ctx.count("logs:" + kind)
        for e in log:
            if e[0] == "startElementNS":
                if e[1][0] not in (canon.HTML, None):
                    ctx.count("foreign_element_events")
                for key, _ in e[4]:
                    ctx.add("foreign_attrs_seen", FOREIGN_QNAMES[key])
        ctx.count("emptytag_tokens", sum(1 for t in tokens if t["type"] == "EmptyTag"))
        bad, rb = check_log(log)
        if bad:
            ctx.violation("event-log:" + bad[0][0], case, "%s walker: %s %s" % (kind, bad[0][0], bad[0][1]))
            continue
        exp = expected_from(flat)
        if rb != exp:
            ctx.violation("rebuild-differs", case, "%s walker: %s" % (kind, canon.diff_text(exp, rb, "tree", "sax-rebuilt")))


SEEDS = ["<svg xlink:href=a xlink:actuate=b xlink:arcrole=c xlink:role=d xlink:show=e xlink:title=f xlink:type=g "
         "xml:base=h xml:lang=i xml:space=j xmlns=http://www.w3.org/2000/svg xmlns:xlink=http://www.w3.org/1999/xlink>x",
         "<math xlink:href=a xml:lang=b definitionurl=c><mi>x", "<br><img src=a><hr>x<input>", "<event-source>x",
         "<p {x}y=z>", "<!--a-->x<!--b-->y", "<!DOCTYPE html>a<!--c-->b", "<table><tr><td>a<col>", "",
         "<p xml:lang=a lang=b>", "<svg><foreignObject><p>x</p></foreignObject><desc>y</desc></svg>"]


def shard(ctx):
    k = 0
    for s in SEEDS:
        for frag, cont in ((False, None), (True, "div")):
            k += 1
            if ctx.mine(k):
                run_case(ctx, {"input": s, "frag": frag, "container": cont})
                run_case(ctx, {"input": s, "frag": frag, "container": cont, "ns": False})
    for q in gen.token_sequences(ctx, 3, 3, 0.4):
        run_case(ctx, {"input": q, "frag": False, "container": None})
        ctx.count("sequence_cases")
    n, idx = 0, ctx.i
    limit = (120000 if ctx.tier == "quick" else 3000000) // ctx.n
    t_end = time.time() + ctx.time_left()
    while n < limit and time.time() < t_end:
        rng = ctx.rng("rand", idx)
        idx += ctx.n
        n += 1
        data = streams.gen_input(rng, 25 if ctx.tier == "quick" else 80)
        frag = rng.random() < 0.3
        case = {"input": data, "frag": frag, "container": rng.choice(gen.CONTEXTS) if frag else None}
        if rng.random() < 0.15:
            case["ns"] = False
        run_case(ctx, case)
        if n <= 3 and ctx.i == 0:
            ctx.sample(case)


def replay(ctx, case):
    run_case(ctx, case)


def finalize(m, v):
    from .. import gen as _gen
    _gen.sequences_inconclusive(m)
    c = m["counters"]
    if c.get("events", 0) < 1000000:
        m["inconclusive"].append("handler received fewer than 10^6 events (%d)" % c.get("events", 0))
    if c.get("emptytag_tokens", 0) < 200 or c.get("foreign_element_events", 0) < 200:
        m["inconclusive"].append("EmptyTag or foreign-element path seen fewer than 200 times")
    seen = m["sets"].get("foreign_attrs_seen", set())
    if len(seen) < 12:
        m["inconclusive"].append("only %d of the 12 adjustable foreign attributes seen" % len(seen))
    return {}
