"""C20 - XML-name coercion yields legal names and is reversible."""
import itertools
import re
import time
import warnings
from xml.parsers import expat

from .. import gen
from ..common import short

LEVEL = "exploration"
EXHAUSTIVE = {"quick": False, "thorough": False}
TECHNIQUE = ("runtime monitoring against an independent XML parser (expat): complete enumeration of the BMP x {first, "
             "non-first} position, injectivity/round-trip monitors on tokenizer-produced and generated names, "
             "comment/pubid oracles under all 64 flag combinations")
LEVEL_TEXT = ("The character-class clause is enumerated completely (every BMP code point in first and in non-first "
              "position, element and attribute names, judged by expat) in both tiers; injectivity, reversibility, "
              "comment and pubid clauses are explored over generated strings and over names emitted by the real "
              "tokenizer, under all 64 InfosetFilter flag combinations. Held on what was observed.")
BUDGET_S = {"quick": 30, "thorough": 300}
RULE = ("cases = (a) every BMP code point x {first, non-first position}: coerced name must be accepted by expat as "
        "element and attribute name, and an expat-legal colon-free name must be unchanged; (b) generated and "
        "tokenizer-produced names: legality, injectivity, fromXmlName round trip; (c) comment and pubid strings x 64 flag "
        "combinations. distinct_nontrivial = distinct (kind, string, flags) cases.")
ASSUMPTIONS = [
    "an XML parser = pyexpat (XML 1.0 fourth-edition name classes); a name is 'legal' iff expat accepts <NAME/> and <a NAME='1'/>",
    "names containing lone surrogates cannot be handed to expat at all and count as not legal",
    "warnings (DataLossWarning) are silenced, they are not part of the property",
]

PUBID_OK = set(" \r\nabcdefghijklmnopqrstuvwxyzABCDEFGHIJKLMNOPQRSTUVWXYZ0123456789-'()+,./:=?;!*#@$_%")
FLAGS = ["dropXmlnsLocalName", "dropXmlnsAttrNs", "preventDoubleDashComments", "preventDashAtCommentEnd",
         "replaceFormFeedCharacters", "preventSingleQuotePubid"]
ESC = re.compile(r"U[0-9A-F]{5}")


def expat_ok(name):
    """expat accepts the string as exactly one element name and as exactly one attribute name."""
    try:
        b1 = ("<%s/>" % name).encode("utf-8")
        b2 = ('<a %s="1"/>' % name).encode("utf-8")
    except UnicodeEncodeError:
        return False
    seen = []

    def start(n, attrs):
        seen.append((n, attrs))
    for b in (b1, b2):
        p = expat.ParserCreate()
        p.ordered_attributes = True
        p.StartElementHandler = start
        try:
            p.Parse(b, True)
        except expat.ExpatError:
            return False
    return seen[0] == (name, []) and seen[1] == ("a", [name, "1"])


def bmp_sweep(ctx, lo, hi):
    from html5lib import _ihatexml
    f = _ihatexml.InfosetFilter()
    for cp in range(lo, hi):
        c = chr(cp)
        for pos, name in (("first", c + "a"), ("rest", "a" + c)):
            out = f.toXmlName(name)
            ctx.case(["bmp", cp, pos])
            ctx.count("bmp_cases")
            legal_in = expat_ok(name)
            if not expat_ok(out):
                ctx.violation("coerced-name-rejected-by-expat:bmp-" + pos, {"kind": "name", "name": name},
                              "U+%04X in %s position: toXmlName(%r) = %r is not accepted by expat" % (cp, pos, name, out))
            elif legal_in and c != ":" and out != name:
                ctx.violation("legal-name-changed:bmp-" + pos, {"kind": "name", "name": name},
                              "U+%04X in %s position is legal for expat but toXmlName(%r) = %r" % (cp, pos, name, out))
            if legal_in:
                ctx.count("bmp_legal_" + pos)
            if out != name:
                ctx.count("bmp_coerced_" + pos)
            if not ESC.search(name):
                back = f.fromXmlName(out)
                if back != name:
                    ctx.violation("round-trip:bmp", {"kind": "name", "name": name},
                                  "fromXmlName(toXmlName(%r)) = %r" % (name, back))


def judge_name(ctx, name, flags=None):
    from html5lib import _ihatexml
    f = _ihatexml.InfosetFilter(**(flags or {}))
    case = {"kind": "name", "name": name, "flags": flags or {}}
    ctx.case(["name", name, sorted((flags or {}).items())])
    ctx.count("name_cases")
    outs = [f.coerceElement(name), f.coerceAttribute(name)]
    # the attribute entry point with its namespace argument: the name may be dropped (None) only for the two documented
    # reasons, each under its own flag; otherwise the result is the one obtained without the argument
    fl = flags or {}
    XMLNS = "http://www.w3.org/2000/xmlns/"
    for ns in (XMLNS, "http://www.w3.org/1999/xlink", None):
        got = f.coerceAttribute(name, ns)
        may_drop = bool((fl.get("dropXmlnsLocalName") and name.startswith("xmlns:")) or (fl.get("dropXmlnsAttrNs") and ns == XMLNS))
        ctx.count("attribute_namespace_argument_cases")
        if (got is None) != may_drop:
            ctx.violation("attribute-dropped-or-kept-against-its-flag", dict(case, namespace=ns),
                          "coerceAttribute(%r, %r) = %r under flags %r" % (name, ns, got, sorted(k for k, v in fl.items() if v)))
            return None
        if got is not None and got != outs[1]:
            ctx.violation("attribute-namespace-argument-changes-the-name", dict(case, namespace=ns), "%r vs %r" % (got, outs[1]))
            return None
    if not isinstance(outs[0], str):
        ctx.violation("element-name-result-not-a-string", case, "coerceElement(%r) = %r" % (name, outs[0]))
        return None
    for out in outs:
        if out is None:
            ctx.count("attribute_dropped_by_flag")
            continue
        if not expat_ok(out):
            astral = [c for c in name if ord(c) > 0xFFFF]
            # (each astral character replaced by a letter, so that positions - first vs rest - stay what they were)
            if astral and expat_ok("".join(c if ord(c) <= 0xFFFF else "a" for c in out)):
                ctx.known_finding("astral-characters-not-coerced", case,
                                  "toXmlName(%r) = %r keeps astral characters, which expat rejects in names" % (name, out))
            else:
                ctx.violation("coerced-name-rejected-by-expat", case, "toXmlName(%r) = %r rejected by expat" % (name, out))
            return None
        if ":" not in name and expat_ok(name) and out != name:
            ctx.violation("legal-name-changed", case, "%r -> %r" % (name, out))
        if not ESC.search(name):
            back = f.fromXmlName(out)
            ctx.count("round_trips")
            if back != name:
                ctx.violation("round-trip", case, "fromXmlName(%r) = %r, original %r" % (out, back, name))
            # the library decodes with a filter object of its own (etree tostring, the lxml walker): an instance that has
            # never escaped anything must decode the same
            back2 = _ihatexml.InfosetFilter().fromXmlName(out)
            ctx.count("round_trips_fresh_decoder")
            if back2 != name:
                ctx.violation("round-trip-fresh-decoder", case, "InfosetFilter().fromXmlName(%r) = %r, original %r" % (out, back2, name))
    # history independence: what one instance did before (public identifiers and comments share its replacement cache)
    # must not change what it does to a name
    f3 = _ihatexml.InfosetFilter(**(flags or {}))
    try:
        f3.coercePubid(name)
        f3.coerceComment(name)
        f3.coerceCharacters(name)
    except Exception:
        pass
    ctx.count("history_independence_cases")
    if f3.coerceElement(name) != outs[0] or f3.coerceAttribute(name) != outs[1]:
        ctx.violation("name-result-depends-on-earlier-calls", case, "after coercePubid/coerceComment(%r): coerceElement = %r, fresh instance %r"
                      % (name, f3.coerceElement(name), outs[0]))
    return outs[0]


class _Budget(Exception):
    pass


def bounded(fn, *a):
    """fn(*a) under a budget of traced line events (the coercion functions contain while-loops over the data): a call that
    does not come back within 20000 lines for inputs of a few dozen characters is reported, not waited for."""
    import sys
    n = [0]

    def tr(frame, event, arg):
        if event == "line":
            n[0] += 1
            if n[0] > 20000:
                raise _Budget()
        return tr
    old = sys.gettrace()
    sys.settrace(tr)
    try:
        return fn(*a)
    finally:
        sys.settrace(old)


def judge_comment(ctx, data, flags):
    from html5lib import _ihatexml
    f = _ihatexml.InfosetFilter(**flags)
    try:
        out = bounded(f.coerceComment, data)
    except _Budget:
        ctx.case(["comment", data, sorted(flags.items())])
        ctx.violation("comment-coercion-does-not-terminate", {"kind": "comment", "data": data, "flags": flags},
                      "coerceComment(%r) exceeded 20000 traced lines (flags %r)" % (data, sorted(k for k, v in flags.items() if v)))
        return
    case = {"kind": "comment", "data": data, "flags": flags}
    ctx.case(["comment", data, sorted(flags.items())])
    ctx.count("comment_cases")
    if not isinstance(out, str):
        ctx.violation("comment-result-not-a-string", case, "coerceComment(%r) = %r" % (data, out))
        return
    if flags.get("preventDoubleDashComments") and "--" in out:
        ctx.violation("comment-double-dash", case, "coerceComment(%r) = %r contains '--'" % (data, out))
    if (flags.get("preventDashAtCommentEnd") or flags.get("preventDoubleDashComments")) and out.endswith("-"):
        ctx.violation("comment-trailing-dash", case, "coerceComment(%r) = %r ends in '-' (flags %r)" % (
            data, out, sorted(k for k, v in flags.items() if v)))
    if not any(flags.get(k) for k in ("preventDoubleDashComments", "preventDashAtCommentEnd")) and out != data:
        ctx.violation("comment-changed-without-flag", case, "%r -> %r" % (data, out))


def judge_pubid(ctx, data, flags):
    from html5lib import _ihatexml
    f = _ihatexml.InfosetFilter(**flags)
    out = f.coercePubid(data)
    case = {"kind": "pubid", "data": data, "flags": flags}
    ctx.case(["pubid", data, sorted(flags.items())])
    ctx.count("pubid_cases")
    if not isinstance(out, str):
        ctx.violation("pubid-result-not-a-string", case, "coercePubid(%r) = %r" % (data, out))
        return
    badc = [c for c in out if c not in PUBID_OK]
    if badc:
        ctx.violation("pubid-non-pubidchar", case, "coercePubid(%r) = %r contains %r" % (data, out, badc[:3]))
    if flags.get("preventSingleQuotePubid") and "'" in out:
        ctx.violation("pubid-single-quote", case, "coercePubid(%r) = %r" % (data, out))
    if all(c in PUBID_OK for c in data) and not flags.get("preventSingleQuotePubid") and out != data:
        ctx.violation("legal-pubid-changed", case, "%r -> %r" % (data, out))


def tokenizer_names(data):
    """Element and attribute names the real tokenizer emits for the input."""
    from html5lib import _tokenizer
    names = set()
    try:
        for t in _tokenizer.HTMLTokenizer(data):
            if t["type"] in (3, 4) or t.get("name") and isinstance(t.get("data"), (list, dict)):
                if t.get("name"):
                    names.add(t["name"])
                d = t.get("data")
                if isinstance(d, dict):
                    names.update(k for k in d.keys() if isinstance(k, str))
                elif isinstance(d, list):
                    names.update(k for k, v in d)
    except Exception:
        pass
    return [n for n in names if n]


def all_flag_sets():
    for bits in itertools.product([False, True], repeat=6):
        yield dict(zip(FLAGS, bits))


def run_case(ctx, case):
    warnings.simplefilter("ignore")
    k = case["kind"]
    if k == "name":
        judge_name(ctx, case["name"], case.get("flags"))
    elif k == "comment":
        judge_comment(ctx, case["data"], case["flags"])
    elif k == "pubid":
        judge_pubid(ctx, case["data"], case["flags"])


def shard(ctx):
    warnings.simplefilter("ignore")
    # (a) complete BMP sweep, split in 256-code-point blocks across shards
    for blk in range(256):
        if ctx.mine(blk):
            bmp_sweep(ctx, blk * 256, blk * 256 + 256)
    # (c) comments / pubids x all 64 flag combinations
    comments = ["", "-", "--", "---", "----", "a-", "a--", "-a", "a--b", "a- -b", "a---b--", "- -", "x", " -", "-->",
                "--!>", "a\x0c-", "é--", "--\U0001F600-", "-" * 31]
    pubids = ["", "-//W3C//DTD HTML 4.01//EN", "a'b", "\"", "a\x0cb", "é", "\x00", "<>", "a\tb", "\U0001F600", "&", "[]",
              "~", "^", "a b\r\nc", "|", "{}", "\\", "`", "U00027", "'" * 5]
    k = 0
    flagsets = list(all_flag_sets())
    for fl in flagsets:
        for c in comments:
            k += 1
            if ctx.mine(k):
                judge_comment(ctx, c, fl)
        for p in pubids:
            k += 1
            if ctx.mine(k):
                judge_pubid(ctx, p, fl)
                # and every concatenation of two of them (a quote next to another character that needs coercion, ...)
                for p2 in pubids:
                    judge_pubid(ctx, p + p2, fl)
        for nm in ["xmlns:a", "xmlns", "a:b", "aU0003Ab", "1a", "-a", "a b", "é", "a\x0cb", "{x}y", "xlink:href"]:
            k += 1
            if ctx.mine(k):
                judge_name(ctx, nm, fl)
    ctx.count("flag_combinations", len(flagsets) if ctx.i == 0 else 0)
    # (b) names: near-colliding pairs, generated, tokenizer-produced
    images = {}

    def inj(name):
        out = judge_name(ctx, name)
        if out is None:
            return
        ctx.count("injectivity_checked")
        prev = images.get(out)
        if prev is not None and prev != name and not ESC.search(name) and not ESC.search(prev):
            ctx.violation("not-injective", {"kind": "name", "name": name, "other": prev},
                          "toXmlName(%r) == toXmlName(%r) == %r" % (name, prev, out))
        images.setdefault(out, name)
    if ctx.i == 0:
        for a, b in [("a:b", "aU0003Ab"), ("a b", "aU00020b"), ("1", "U00031"), ("a", "A"), ("K", "k"), ("é", "é")]:
            inj(a)
            inj(b)
        for cp in (0x10000, 0x1F600, 0x10FFFF, 0x20000):
            inj("a" + chr(cp))
            inj(chr(cp) + "a")
    n, idx = 0, ctx.i
    limit = (20000 if ctx.tier == "quick" else 1500000) // ctx.n
    t_end = time.time() + ctx.time_left()
    alphabet = "abzAZ09-_.:· <>\"'=/\\{}\x00\x0c\t\nU0éK̀﷐\ud800・"
    while n < limit and time.time() < t_end:
        rng = ctx.rng("names", idx)
        idx += ctx.n
        n += 1
        r = rng.random()
        if r < 0.5:
            name = "".join(rng.choice(alphabet) if rng.random() < 0.9 else chr(rng.randrange(0x10000))
                           for _ in range(rng.randint(1, 6)))
            inj(name)
        elif r < 0.55:
            inj("".join(chr(rng.choice([rng.randrange(0x10000, 0x110000), 0x61])) for _ in range(rng.randint(1, 3))))
        else:
            for nm in tokenizer_names(gen.soup(rng, 12)):
                ctx.count("tokenizer_names")
                inj(nm)
        if n == 1 and ctx.i == 0:
            ctx.sample({"kind": "name", "name": "a:b", "coerced": "aU0003Ab"})
            ctx.sample({"kind": "bmp", "code_point": "U+00B7", "positions": ["first", "rest"]})


def replay(ctx, case):
    run_case(ctx, case)


def finalize(m, v):
    c = m["counters"]
    if c.get("bmp_cases", 0) != 131072:
        m["inconclusive"].append("BMP sweep incomplete: %d of 131072 cases" % c.get("bmp_cases", 0))
    if c.get("tokenizer_names", 0) < 1000 or c.get("round_trips", 0) < 1000:
        m["inconclusive"].append("too few tokenizer-produced names / round trips")
    if c.get("comment_cases", 0) < 64 * 20 or c.get("pubid_cases", 0) < 64 * 20:
        m["inconclusive"].append("flag-combination families incomplete")
    return {"bmp_sweep_complete": c.get("bmp_cases", 0) == 131072,
            "exhaustive_note": "character-class clause: all 65536 BMP code points x 2 positions enumerated (complete); "
                               "the other clauses are sampled, so coverage.exhaustive is not set"}
