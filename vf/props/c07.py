"""C07 - serialize then parse is the identity on conforming documents."""
import time

from .. import conform, canon, streams
from ..common import short

LEVEL = "exploration"
TECHNIQUE = ("runtime monitoring: round-trip monitor parse(serialize(T, options)) == T over conforming trees from a "
             "content-model grammar x sampled serializer option combinations x both walkers; mismatches classified by "
             "markup-level reproductions of the listed mechanisms")
LEVEL_TEXT = ("Held on the executions produced: every accepted conforming document, walked by the etree and dom walkers "
              "and serialized under randomly combined options (quoting mode and character, omission, minimisation, "
              "trailing solidus, escaping flags, attribute sorting, output encoding), re-parsed to the original tree, "
              "except for the listed findings, each reproduced exactly by its markup-level mechanism. Exploration.")
BUDGET_S = {"quick": 50, "thorough": 900}
RULE = ("cases = (conforming document, option set, walker); documents come from the content-model grammar and are used "
        "only if html5lib parses their explicit serialisation to the intended tree without errors; option sets are drawn "
        "uniformly from the cross product (quick: 6 per document; thorough: 40). distinct_nontrivial = distinct "
        "(document, options, walker) triples; every one involves at least 20 tree events.")
ASSUMPTIONS = [
    "alphabetical_attributes: attributes are compared sorted by (namespace or '', name) (by-design transformation)",
    "an output encoding with inject_meta_charset: the expected tree gains <meta charset=ENC> as first child of head (by design); the bytes are decoded with the same codec before parsing (sniffing is C15's subject)",
    "strip_whitespace, sanitize and resolve_entities are outside this property (they change content by design / are other properties)",
    "conforming = accepted by the grammar AND parsed by html5lib to the intended tree with zero errors; rejects are counted",
]

OPTION_SPACE = {
    "quote_attr_values": ["legacy", "spec", "always"],
    "quote_char": [None, '"', "'"],
    "use_best_quote_char": [None, True, False],
    "omit_optional_tags": [True, False],
    "minimize_boolean_attributes": [True, False],
    "use_trailing_solidus": [False, True],
    "space_before_trailing_solidus": [True, False],
    "escape_lt_in_attrs": [False, True],
    "escape_rcdata": [False, True],
    "alphabetical_attributes": [False, True],
    "encoding": [None, None, "utf-8", "ascii", "koi8-r", "shift_jis", "windows-1252"],
}


def pick_options(rng):
    o = {}
    for k, vals in OPTION_SPACE.items():
        v = rng.choice(vals)
        if v is not None:
            o[k] = v
    return o


def sort_attrs(flat):
    out = []
    for e in flat:
        if e[0] == "S":
            def key(kv):
                k = kv[0]
                if k[:1] == "{" and "}" in k:
                    return (k[1:k.index("}")], k[k.index("}") + 1:])
                return ("", k)
            out.append(("S", e[1], e[2], tuple(sorted(e[3], key=key))))
        else:
            out.append(e)
    return out


def with_meta(flat, enc):
    out = []
    done = False
    for e in flat:
        out.append(e)
        if not done and e[0] == "S" and e[1] == canon.HTML and e[2] == "head":
            out.append(("S", canon.HTML, "meta", (("charset", enc),)))
            out.append(("E",))
            done = True
    return out


def applicable_quirks(opts):
    q = ["attr-ns-dropped", "no-pre-lf"]
    if not opts.get("escape_rcdata"):
        q.append("foreign-rawtext")
    if opts.get("minimize_boolean_attributes", True):
        q.append("bool-min")
    if opts.get("escape_rcdata"):
        q.append("escape-rcdata")
    if opts.get("omit_optional_tags", True):
        q += ["p-end-omitted-in-excluded-parent", "body-start-omitted-before-meta-link"]
    if opts.get("use_trailing_solidus") and not opts.get("space_before_trailing_solidus", True):
        q.append("solidus-glued")
    return q


FINDING_OF = {
    "bool-min": "boolean-attribute-value-minimised", "no-pre-lf": "pre-leading-newline-lost",
    "attr-ns-dropped": "attribute-namespace-dropped", "foreign-rawtext": "raw-text-by-bare-name-foreign",
    "escape-rcdata": "escape-rcdata-alters-raw-text", "p-end-omitted-in-excluded-parent": "p-end-parent-not-checked",
    "body-start-omitted-before-meta-link": "body-start-before-meta-link", "solidus-glued": "unquoted-value-before-trailing-solidus",
}


def matches_with_charrefs(expected, got, enc):
    """got == expected except that every character of expected that enc cannot encode appears in got as one
    character reference decoding to it (the listed finding charref-in-raw-text-for-unencodable, exactly)."""
    from ..ref import charref
    i = 0
    for c in expected:
        try:
            c.encode(enc)
            ok = True
        except UnicodeEncodeError:
            ok = False
        if ok:
            if got[i:i + 1] != c:
                return False
            i += 1
        else:
            if got[i:i + 1] != "&":
                return False
            k = got.find(";", i)
            if k < 0 or k - i > 40 or charref.decode(got[i:k + 1]) != c:
                return False
            i = k + 1
    return i == len(got)


def eq_mod_rawcharref(model, got, enc):
    """-> (equal, normaliser_used)"""
    if model == got:
        return True, False
    if not enc or len(model) != len(got):
        return False, False
    raw = False
    used = False
    for a, b in zip(model, got):
        if a == b:
            if a[0] == "S":
                raw = a[1] == canon.HTML and a[2] in ("script", "style")
            elif a[0] == "E":
                raw = False
            continue
        if a[0] == "T" and b[0] == "T" and raw and matches_with_charrefs(a[1], b[1], enc):
            used = True
            continue
        return False, False
    return True, used


def encodable(doc_flat, enc):
    """Names and comments are written without character references: they must be encodable as they are."""
    for e in doc_flat:
        try:
            if e[0] == "S":
                e[2].encode(enc)
                for k, v in e[3]:
                    k.encode(enc)
            elif e[0] == "C":
                e[1].encode(enc)
        except UnicodeEncodeError:
            return False
    return True


def doc_with_meta(doc, enc):
    """Copy of the Node tree with <meta charset=ENC> as first child of head (what inject_meta_charset does by design)."""
    N = conform.Node
    kids = []
    for c in doc.children:
        if c.kind == "el" and c.name == "html":
            hk = []
            for h in c.children:
                if h.kind == "el" and h.name == "head" and h.ns == canon.HTML:
                    h = N("el", "head", h.ns, h.attrs, [conform.E("meta", [("charset", enc)])] + list(h.children))
                hk.append(h)
            c = N("el", "html", c.ns, c.attrs, hk)
        kids.append(c)
    return N("doc", children=kids)


def expected_view(flat, opts):
    exp = flat
    if opts.get("alphabetical_attributes"):
        exp = sort_attrs(exp)
    return exp


def judge(ctx, doc, want, opts, kind, case):
    from .. import h5
    from html5lib import serializer
    markup = case["markup"]
    flat, p, tree = h5.parse_doc(markup, kind="etree-full" if kind == "etree" else "dom")
    if flat != want:
        ctx.count("walker_tree_differs_from_intended_skipped")  # dom-specific finding of C04 (attr collision)
        return
    so = {k: v for k, v in opts.items() if k != "encoding"}
    enc = opts.get("encoding")
    if enc and not encodable(want, enc):
        ctx.count("names_or_comments_unrepresentable_in_encoding_skipped")
        return
    try:
        s = serializer.HTMLSerializer(**so)
        out = s.render(h5.walker(kind)(tree), enc) if enc else s.render(h5.walker(kind)(tree))
        if len(markup) % 3 == 0:
            # the module-level door to the same thing
            out_mf = serializer.serialize(tree, tree="dom" if kind == "dom" else "etree", encoding=enc, **so)
            ctx.count("module_function_compared")
            if out_mf != out:
                ctx.violation("module-function-differs", case, "html5lib.serialize(...) gave %r, HTMLSerializer(...).render(...) %r" % (
                    short(repr(out_mf), 200), short(repr(out), 200)))
                return
    except Exception as e:
        ctx.violation("serializer-raised:" + type(e).__name__, case, "%s: %s" % (type(e).__name__, short(str(e), 200)))
        return
    if enc:
        try:
            out = out.decode(enc)
        except UnicodeDecodeError as e:
            ctx.violation("output-not-decodable", case, repr(e))
            return
    ctx.case([markup, sorted(opts.items()), kind], nontrivial=len(want) >= 20)
    for k, v in opts.items():
        ctx.add("option_values_seen", "%s=%r" % (k, v))
    ctx.count("roundtrips:" + kind)
    got = h5.parse_doc(out)[0]
    if enc:
        want = with_meta(want, enc)
        if doc is not None:
            doc = doc_with_meta(doc, enc)
    exp = expected_view(want, opts)
    if opts.get("alphabetical_attributes"):
        got_cmp = got
    else:
        got_cmp = got
    if got_cmp == exp:
        return
    # ---- classify: does a markup-level reproduction of the listed mechanisms explain the result exactly?
    if doc is None:
        ctx.violation("roundtrip-differs", case, canon.diff_text(exp, got, "original", "reparsed") + " || output: " + short(out, 600))
        return
    qs_all = applicable_quirks(opts)
    import itertools

    def model(quirkset):
        # explicit() itself writes attributes in sorted order when alphabetical_attributes is on
        return h5.parse_doc(conform.explicit(doc, frozenset(quirkset), opts))[0]

    used_raw = [False]

    def hit(quirkset):
        ok, used = eq_mod_rawcharref(model(quirkset), got_cmp, enc)
        if ok and used:
            used_raw[0] = True
        return ok

    def search():
        if hit(()) :
            return []
        if hit(qs_all):
            return list(qs_all)
        for r in range(len(qs_all) - 1, 0, -1):
            for sub in itertools.combinations(qs_all, r):
                if hit(sub):
                    return list(sub)
        return None
    found = search()
    if found is None and "foreign-rawtext" in qs_all:
        # listed finding raw-text-by-bare-name-foreign: text of a foreign style/script is written raw and re-read as
        # markup (possibly as an unterminated CDATA section swallowing the rest, whose exact spelling depends on
        # every other option).  The trees must agree up to that element; what follows is not decidable here.
        cut = None
        for i2, e in enumerate(exp):
            if (e[0] == "S" and e[1] in (canon.SVG, canon.MATHML) and e[2] in conform.RAWNAMES and i2 + 1 < len(exp) and
                    exp[i2 + 1][0] == "T" and ("<" in exp[i2 + 1][1] or "&" in exp[i2 + 1][1])):
                cut = i2 + 1
                break
        if cut is not None:
            cands = [qs_all] + [list(sub) for r in range(len(qs_all) - 1, -1, -1) for sub in itertools.combinations(qs_all, r)]
            for sub in cands:
                m2 = model(sub)
                # attribute lists of earlier elements may differ by the other quirks, so compare the model prefix
                if m2[:cut] == got_cmp[:cut] or eq_mod_rawcharref(m2[:cut], got_cmp[:cut], enc)[0]:
                    ctx.known_finding("raw-text-by-bare-name-foreign", case, "%s walker: %s" % (
                        kind, canon.diff_text(exp, got, "original", "reparsed")))
                    ctx.count("foreign_rawtext_prefix_only_classification")
                    return
    if found is None and opts.get("omit_optional_tags", True):
        # listed findings p-end-parent-not-checked / body-start-before-meta-link: once such a tag is omitted the parser
        # re-nests, and from there on the (legitimate) omissions further down interact with the broken nesting in ways
        # the markup-level model does not reproduce.  Required: agreement up to the element at which the listed
        # omission happens; what follows is not decided here.
        cut = None
        key = None
        depth = []
        for i2, e in enumerate(exp):
            if e[0] == "S":
                depth.append(i2)
                if e[1] == canon.HTML and e[2] == "body" and not e[3] and i2 + 1 < len(exp) and exp[i2 + 1][0] == "S" and \
                        exp[i2 + 1][1] == canon.HTML and exp[i2 + 1][2] in ("meta", "link", "template"):
                    cut, key = i2, "body-start-before-meta-link"
                    break
            elif e[0] == "E":
                me = depth.pop()
                if exp[me][1] == canon.HTML and exp[me][2] == "p" and depth and i2 + 1 < len(exp) and exp[i2 + 1][0] == "E":
                    par = exp[depth[-1]]
                    if par[1] != canon.HTML or par[2] in conform.P_PARENT_EXCLUDED or "-" in par[2]:
                        cut, key = me, "p-end-parent-not-checked"
                        break
        if cut is not None:
            for sub in [qs_all] + [list(x) for r in range(len(qs_all) - 1, -1, -1) for x in itertools.combinations(qs_all, r)]:
                m2 = model(sub)
                if m2[:cut] == got_cmp[:cut] or eq_mod_rawcharref(m2[:cut], got_cmp[:cut], enc)[0]:
                    ctx.known_finding(key, case, "%s walker: %s" % (kind, canon.diff_text(exp, got, "original", "reparsed")))
                    ctx.count("omission_finding_prefix_only_classification")
                    return
    if found is None:
        ctx.violation("roundtrip-differs", case, canon.diff_text(exp, got, "original", "reparsed") + " || output: " + short(out, 600))
        return
    qs = found
    if used_raw[0]:
        ctx.known_finding("charref-in-raw-text-for-unencodable", case, "%s walker, encoding %s: %s" % (
            kind, enc, canon.diff_text(exp, got, "original", "reparsed")))
    # minimal subset (greedy removal)
    keep = list(qs)
    for q in list(qs):
        trial = [x for x in keep if x != q]
        if hit(trial):
            keep = trial
    for q in keep:
        ctx.known_finding(FINDING_OF[q], case, "%s walker, options %r: %s" % (kind, opts, canon.diff_text(exp, got, "original", "reparsed")))


def run_doc(ctx, rng, nopts):
    doc, markup, want, got, p = conform.accept(rng, rng.choice([2, 3, 3, 4]))
    if doc is None:
        ctx.count("generator_rejects")
        return
    ctx.count("conforming_documents")
    for j in range(nopts):
        opts = pick_options(rng)
        for kind in ("etree", "dom"):
            case = {"markup": markup, "options": opts, "walker": kind, "seed_note": "doc regenerated from markup on replay"}
            judge(ctx, doc, want, opts, kind, case)
    return markup


def rebuild_doc(markup):
    """Replay support: rebuild a Node tree from conforming markup via the intended flat tree."""
    from .. import h5
    flat = h5.parse_doc(markup)[0]
    root = conform.Node("doc", children=[])
    stack = [root]
    for e in flat[1:]:
        if e[0] == "D":
            stack[-1].children.append(conform.Node("doctype", "html"))
        elif e[0] == "C":
            stack[-1].children.append(conform.C(e[1]))
        elif e[0] == "T":
            stack[-1].children.append(conform.T(e[1]))
        elif e[0] == "S":
            attrs = []
            for k, v in e[3]:
                if k[:1] == "{" and "}" in k:
                    ns, ln = k[1:k.index("}")], k[k.index("}") + 1:]
                    pref = {canon.XLINK: "xlink", canon.XML: "xml", canon.XMLNS: "xmlns"}.get(ns, "x")
                    attrs.append(((pref, ln, ns), v))
                else:
                    attrs.append((k, v))
            n = conform.E(e[2], attrs, [], e[1])
            stack[-1].children.append(n)
            stack.append(n)
        elif e[0] == "E":
            stack.pop()
    return root, flat


def run_case(ctx, case):
    doc, want = rebuild_doc(case["markup"])
    judge(ctx, doc, want, case["options"], case["walker"], case)


SEED_DOCS = [
    "<!DOCTYPE html><html><head></head><body><a href=\"x\"><p>y</p></a></body></html>",
    "<!DOCTYPE html><html><head></head><body><link rel=\"stylesheet\" href=\"x\"><p>y</p></body></html>",
    "<!DOCTYPE html><html><head></head><body><pre>\n\nx</pre><textarea>\n\ny</textarea></body></html>",
    "<!DOCTYPE html><html><head></head><body><input disabled=\"disabled\"><br class=\"a\"></body></html>",
    "<!DOCTYPE html><html><head><script>a&lt;b</script></head><body><svg xlink:href=\"a\"><style>&lt;b&gt;</style></svg></body></html>",
]


def shard(ctx):
    nopts = 6 if ctx.tier == "quick" else 40
    k = 0
    for sd in SEED_DOCS:
        for opts in ({}, {"omit_optional_tags": False}, {"use_trailing_solidus": True, "space_before_trailing_solidus": False, "quote_attr_values": "spec"},
                     {"escape_rcdata": True}, {"minimize_boolean_attributes": False}):
            for kind in ("etree", "dom"):
                k += 1
                if ctx.mine(k):
                    run_case(ctx, {"markup": sd, "options": opts, "walker": kind})
    n, idx = 0, ctx.i
    limit = (8000 if ctx.tier == "quick" else 100000) // ctx.n
    t_end = time.time() + ctx.time_left()
    while n < limit and time.time() < t_end:
        rng = ctx.rng("docs", idx)
        idx += ctx.n
        n += 1
        mk = run_doc(ctx, rng, nopts)
        if n <= 2 and ctx.i == 0 and mk:
            ctx.sample({"markup": short(mk, 500)})


def replay(ctx, case):
    run_case(ctx, case)


def finalize(m, v):
    c = m["counters"]
    cd, rej = c.get("conforming_documents", 0), c.get("generator_rejects", 0)
    if cd < 1000:
        m["inconclusive"].append("fewer than 1000 conforming documents (%d)" % cd)
    if cd + rej and rej > 0.2 * (cd + rej):
        m["inconclusive"].append("generator reject rate above 20%%: %d of %d" % (rej, cd + rej))
    nvals = sum(len(set(x for x in vals)) for vals in OPTION_SPACE.values())
    if len(m["sets"].get("option_values_seen", ())) < 20:
        m["inconclusive"].append("fewer than 20 distinct option values exercised")
    return {"generator_reject_rate": round(rej / float(cd + rej), 4) if cd + rej else None}
