"""C11 - tree walkers emit a well-formed stream that reproduces the tree."""
import time

from .. import canon, streams
from ..common import short

LEVEL = "exploration"
TECHNIQUE = ("runtime monitoring: own stream automaton + Lint acceptance + rebuild-and-compare against the directly "
             "traversed tree + etree-vs-dom stream comparison, over trees parsed from generated input")
LEVEL_TEXT = ("Held on the executions produced: every walker stream (etree and dom walkers; document, root element and "
              "fragment start nodes) was accepted by the harness's own automaton and by Lint, rebuilt to exactly the "
              "directly traversed tree, and the two walkers agreed after concatenation. Exploration; the deciding "
              "oracle is independent of html5lib's walkers and Lint.")
BUDGET_S = {"quick": 40, "thorough": 600}
RULE = ("cases = (input, walker in {etree, dom}, start node in {document, root element, fragment+container}); trees "
        "come from parsing soup / misnesting / whitespace-rich / random text / deep nesting with the real parser. "
        "Each stream is judged by the own automaton, by Lint, by rebuild == canon(tree) and by etree==dom stream "
        "comparison. distinct_nontrivial = distinct (input, walker, start) whose stream has at least 8 tokens.")
ASSUMPTIONS = [
    "void HTML elements = the standard's list (area base br col embed hr img input link meta param source track wbr)",
    "stream equality between walkers is compared with attributes as an unordered mapping (tokens are dicts)",
    "when the etree and dom builders disagree on the tree (C04's subject) the cross-walker comparison is skipped and counted",
]


def clark_norm(ns_stream):
    """Normaliser for finding etree-walker-clark-attr-conflation: an attribute literally named '{x}y' is
    reported by the etree walker as namespace x, local y."""
    out = []
    for t in ns_stream:
        if t[0] in ("StartTag", "EmptyTag"):
            items = []
            for (ns, ln), v in t[3]:
                if ns is None and ln[:1] == "{" and "}" in ln[1:]:
                    i = ln.index("}")
                    if ln[i + 1:] != "" or True:
                        ns, ln = ln[1:i], ln[i + 1:]
                items.append(((ns, ln), v))
            items = sorted(items, key=lambda kv: (kv[0][0] or "", kv[0][1]))
            out.append((t[0], t[1], t[2], tuple(items)))
        else:
            out.append(t)
    return out


def judge_stream(ctx, case, tokens, expected_flat, start, label):
    """Own automaton + Lint + rebuild."""
    from html5lib.filters import lint
    bad = streams.automaton(tokens)
    ser_err = [t for t in tokens if t.get("type") == "SerializeError"]
    known = False
    for klass, msg in bad:
        if klass.startswith("unknown-token-type:SerializeError") and ser_err:
            known = True
            continue
        if klass in ("void-as-start-tag:wbr", "void-as-end-tag:wbr"):
            ctx.known_finding("wbr-not-in-void-table", case, msg)
            continue
        ctx.violation("automaton:" + klass, case, "%s: %s" % (label, msg))
        return False
    if ser_err:
        # html5lib's void table (not its parser) says event-source is void: children are skipped
        names = set()
        for i, t in enumerate(tokens):
            if t.get("type") == "SerializeError" and i and tokens[i - 1].get("type") == "EmptyTag":
                names.add(tokens[i - 1]["name"])
        if names and names <= {"event-source"}:
            ctx.known_finding("void-table-event-source-children", case,
                              "%s: SerializeError token, children of %s skipped" % (label, sorted(names)))
            return False
        ctx.violation("serialize-error-token", case, "%s: %r" % (label, ser_err[0]))
        return False
    try:
        list(lint.Filter(streams.copy_tokens(tokens)))
        ctx.count("lint_accepted")
    except AssertionError as e:
        ctx.violation("lint-rejects", case, "%s: Lint AssertionError %s" % (label, short(str(e), 200)))
        return False
    rb = streams.rebuild(tokens, start)
    ctx.count("rebuild_compared")
    if rb != expected_flat:
        ctx.violation("rebuild-differs:" + label.split(" ")[0], case,
                      "%s: %s" % (label, canon.diff_text(expected_flat, rb, "tree", "rebuilt")))
        return False
    return True


def run_case(ctx, case):
    from .. import h5
    from ..props.c04 import html_subtree
    data = case["input"]
    frag = case["frag"]
    nsflag = bool(case.get("ns", True))
    res = {}
    for kind in ("etree", "dom"):
        try:
            if frag:
                flat, p, tree = h5.parse_frag(data, container=case["container"], kind=kind, ns=nsflag)
                starts = [("fragment", tree, flat, "frag")]
            else:
                flat, p, tree = h5.parse_doc(data, kind="etree-full" if kind == "etree" else "dom", ns=nsflag)
                starts = [("document", tree, flat, "doc")]
                sub = html_subtree(flat)
                if not nsflag:
                    ctx.count("trees_with_unnamespaced_html_elements")
                if kind == "etree":
                    root = tree.find("{%s}html" % canon.HTML) if nsflag else tree.find("html")
                else:
                    root = tree.documentElement
                if root is not None and sub is not None:
                    starts.append(("root-element", root, sub, None))
        except Exception as e:
            ctx.count("parse_raised")
            return
        # walks that start at an inner element (the walker must stop at that element's own end, not climb or run on)
        try:
            if len(data) % 3 == 0:
                if kind == "etree":
                    els = [e for e in tree.iter() if isinstance(e.tag, str) and not e.tag.startswith("<") and e.tag not in ("DOCUMENT_ROOT", "DOCUMENT_FRAGMENT")]
                else:
                    els = list(tree.getElementsByTagName("*")) if hasattr(tree, "getElementsByTagName") else []
                step = max(1, len(els) // 3)
                for el in els[1::step][:3]:
                    sub = canon.canon_etree(el) if kind == "etree" else canon.canon_dom(el)
                    starts.append(("sub-element", el, sub, None))
        except Exception:
            ctx.count("sub_element_selection_failed")
        W = h5.walker(kind)
        for sname, node, expflat, startmark in starts:
            label = "%s-walker %s" % (kind, sname)
            try:
                tokens = list(W(node))
            except Exception as e:
                ctx.case([data, kind, sname, case.get("container")], True)
                ctx.violation("walker-raised:%s" % type(e).__name__, case, "%s: %s: %s" % (label, type(e).__name__, short(str(e), 200)))
                continue
            ctx.case([data, kind, sname, case.get("container")], nontrivial=len(tokens) >= 8)
            ctx.count("tokens", len(tokens))
            ctx.count("streams:%s:%s" % (kind, sname))
            ok = judge_stream(ctx, case, tokens, expflat, startmark, label)
            res[(kind, sname)] = (tokens, expflat, ok)
    # cross-walker comparison
    for sname in ("document", "root-element", "fragment"):
        a, b = res.get(("etree", sname)), res.get(("dom", sname))
        if not a or not b or not a[2] or not b[2]:
            continue
        if a[1] != b[1]:
            ctx.count("cross_skipped_builders_differ")
            continue
        na, nb = streams.norm_stream(a[0]), streams.norm_stream(b[0])
        ctx.count("cross_compared")
        if na != nb:
            if clark_norm(nb) == na:
                ctx.known_finding("etree-walker-clark-attr-conflation", case,
                                  "attribute literally named {x}y: etree walker reports namespace x, dom walker does not")
                continue
            i = canon.first_diff(na, nb)
            ctx.violation("walkers-differ", case, "%s: token %d etree=%r dom=%r" % (sname, i, na[i:i + 2], nb[i:i + 2]))


def deep_inputs(tier):
    d = 2000 if tier == "quick" else 5000
    return ["<div>" * d + "x", "<b>" * d + "x" + "</b>" * d, "<ul><li>" * (d // 2), "x<span>y" * d + "z",
            "<svg><g>" + "<g>" * d, "<table><tr><td>" * (d // 10) + "x", " <p> " * d,
            "<!--c-->" * d + "<html><!--d-->" * 3 + "</html><!--e-->" * 50]


SEEDS = ["<!DOCTYPE html><!--a--><html><!--b--><head></head><body>x<br>y</body></html><!--c-->",
         "<p xml:lang=a lang=b>x", "<svg xlink:href=a xml:lang=b xmlns:xlink=c><g {x}y=1>", "<p {x}y=z>q", "a<wbr>b",
         "<event-source>x</event-source>", "<event-source></event-source>", "<command>x", "<image>x", "<br>x</br>y",
         " x ", "\x0cx\x0c", " \t\n\x0c\r", "<pre>\n\nx</pre>", "<table> x <tr> y", "<math><mi xlink:href=a>x</mi>",
         "<!DOCTYPE a PUBLIC \"b\" \"c\">", "<!DOCTYPE>", "<!DOCTYPE html SYSTEM 'x'>", "<frameset><frame></frameset>",
         "<keygen>x<basefont>y<bgsound>z<spacer>w<frame>", "<div>a<b>b</b>c<!--d-->e<i>f</i></div>g",
         "<param><source><track><embed><col><area>", "<select><option>a<optgroup><option>b"]


def shard(ctx):
    k = 0
    for s in SEEDS + deep_inputs(ctx.tier):
        for frag, cont in ((False, None), (True, "div"), (True, "table")):
            k += 1
            if ctx.mine(k):
                run_case(ctx, {"input": s, "frag": frag, "container": cont})
                ctx.count("directed_cases")
    from .. import gen
    for q in gen.token_sequences(ctx, 3, 3, 0.4):
        run_case(ctx, {"input": q, "frag": False, "container": None})
        ctx.count("sequence_cases")
    n, idx = 0, ctx.i
    limit = (240000 if ctx.tier == "quick" else 3000000) // ctx.n
    t_end = time.time() + ctx.time_left()
    while n < limit and time.time() < t_end:
        rng = ctx.rng("rand", idx)
        idx += ctx.n
        n += 1
        data = streams.gen_input(rng, 25 if ctx.tier == "quick" else 80)
        frag = rng.random() < 0.3
        case = {"input": data, "frag": frag, "container": rng.choice(gen.CONTEXTS) if frag else None}
        if rng.random() < 0.12:
            case["ns"] = False
        run_case(ctx, case)
        if n <= 3 and ctx.i == 0:
            ctx.sample(case)


def replay(ctx, case):
    run_case(ctx, case)


def finalize(m, v):
    from .. import gen as _gen
    _gen.sequences_inconclusive(m)
    c = m["counters"]
    for key in ("streams:etree:document", "streams:etree:root-element", "streams:etree:fragment",
                "streams:dom:document", "streams:dom:root-element", "streams:dom:fragment"):
        if c.get(key, 0) < 1000:
            m["inconclusive"].append("%s: only %d streams (< 1000)" % (key, c.get(key, 0)))
    if c.get("cross_compared", 0) < 1000:
        m["inconclusive"].append("fewer than 1000 etree/dom stream comparisons")
    if c.get("rebuild_compared", 0) == 0 or c.get("lint_accepted", 0) == 0:
        m["inconclusive"].append("rebuild or Lint oracle never ran")
    return {}
