"""C05 - the result does not depend on how the characters are delivered (metamorphic monitor + I/O boundary log)."""
import io
import time

from .. import gen, canon
from ..common import short

LEVEL = "exploration"
TECHNIQUE = ("runtime monitoring: metamorphic monitor (same characters, every delivery => identical tree and error list) "
             "with an I/O boundary log recording where each chunk boundary fell (tokenizer state, split construct)")
LEVEL_TEXT = ("Held on the executions produced: for every input the tree and the (code, line, column) error list were "
              "identical across str, StringIO, short-read text streams (all single cuts for inputs <= 64 chars, uniform "
              "1..8, random schedules), internal chunk sizes 1..64, and bytes / BytesIO / non-seekable byte streams "
              "(full and short reads) in every lossless encoding of the label sample, declared certain. The boundary log "
              "shows which tokenizer states and multi-character constructs were actually split. Exploration.")
BUDGET_S = {"quick": 50, "thorough": 900}
RULE = ("cases = (input, delivery variant); baseline = parse(str). Variants: StringIO; short-read text stream with a read "
        "schedule (all 1s, all k for k=2..8, one cut at every position for inputs <= 64 chars, seeded random); class "
        "attribute _defaultChunkSize in {1,2,3,4,5,7,8,13,16,64}; bytes, BytesIO, non-seekable byte stream with full and "
        "scheduled reads x lossless encodings (transport_encoding => certain; UTF-8/UTF-16 also by BOM). "
        "distinct_nontrivial = distinct (input, variant) pairs in which at least one chunk boundary fell strictly inside "
        "the input.")
ASSUMPTIONS = [
    "byte variants use only encodings that encode the text losslessly with the webencodings codec; texts starting with U+FEFF are not used for byte variants (a BOM is stripped by design)",
    "the chunk size is varied through the class attribute HTMLUnicodeInputStream._defaultChunkSize, as upstream's own tests do",
    "error lists are compared as [(line, col), code, datavars] in order",
]

LABELS = ["utf-8", "utf-16le", "utf-16be", "windows-1252", "iso-8859-2", "iso-8859-5", "iso-8859-7", "iso-8859-15",
          "koi8-r", "koi8-u", "windows-1250", "windows-1251", "windows-1253", "windows-1254", "windows-1255",
          "windows-1256", "windows-1257", "windows-1258", "macintosh", "ibm866", "shift_jis", "euc-jp", "iso-2022-jp",
          "gbk", "gb18030", "big5", "euc-kr", "windows-874", "iso-8859-3", "iso-8859-4", "iso-8859-6", "iso-8859-8",
          "iso-8859-10", "iso-8859-13", "iso-8859-14", "iso-8859-16", "x-mac-cyrillic"]

_log = []          # boundary log of the current parse
_cur_tok = [None]
_installed = [False]


def install():
    if _installed[0]:
        return
    _installed[0] = True
    from html5lib import _inputstream, _tokenizer
    U = _inputstream.HTMLUnicodeInputStream
    orig_rc = U.readChunk

    def readChunk(self, chunkSize=None):
        prev_tail = self.chunk[-2:] if self.chunk else ""
        held = self._bufferedCharacter
        r = orig_rc(self, chunkSize)
        t = _cur_tok[0]
        st = t.state.__name__ if t is not None and getattr(t, "state", None) is not None else "?"
        _log.append((st, prev_tail, held, self.chunk[:2] if r else None))
        return r
    U.readChunk = readChunk
    T = _tokenizer.HTMLTokenizer
    orig_init = T.__init__

    def __init__(self, *a, **k):
        _cur_tok[0] = self
        orig_init(self, *a, **k)
    T.__init__ = __init__


class Short(object):
    """Text or byte stream that returns short reads following a schedule; not seekable."""

    def __init__(self, data, sizes, cyclic=True):
        self.data, self.pos, self.sizes, self.k, self.cyclic = data, 0, sizes, 0, cyclic

    def read(self, n=-1):
        if n == 0:
            return self.data[:0]
        if n is None or n < 0:
            n = len(self.data) - self.pos
        if self.k < len(self.sizes) or self.cyclic:
            lim = self.sizes[self.k % len(self.sizes)]
            self.k += 1
            n = max(1, min(n, lim))
        r = self.data[self.pos:self.pos + n]
        self.pos += len(r)
        return r


class ShortTell(Short):
    """The same, but with a working tell() (and still no seek): e.g. a raw HTTP body object."""

    def tell(self):
        return self.pos


def parse_variant(data_src, chunk=None, **kw):
    from .. import h5
    from html5lib import _inputstream
    U = _inputstream.HTMLUnicodeInputStream
    old = U._defaultChunkSize
    del _log[:]
    try:
        if chunk:
            U._defaultChunkSize = chunk
        flat, p, tree = h5.parse_doc(data_src, **kw)
    finally:
        U._defaultChunkSize = old
    return flat, h5.errors_of(p), list(_log)


def classify_boundaries(ctx, log, n_chars):
    inside = False
    for st, prev_tail, held, head in log:
        if head is None:
            continue
        if prev_tail or held:
            inside = True
            ctx.add("boundary_states", st)
            ctx.count("boundaries")
            if held == "\r":
                ctx.count("boundary_after_CR")
                if head and head[:1] == "\n":
                    pass
            if held and 0xD800 <= ord(held) <= 0xDBFF:
                ctx.count("boundary_inside_surrogate_pair")
    return inside


def norm_errors(errs, mode):
    """mode 'exact' | 'invalid-codepoint-as-count' (listed finding)"""
    if mode == "exact":
        return errs
    rest = [e for e in errs if e[2] != "invalid-codepoint"]
    return (rest, sum(1 for e in errs if e[2] == "invalid-codepoint"))


def unget_shift_explains(base, got, data):
    """Listed finding position-overshoot-after-multichar-unget: same codes/datavars in order, positions differ only by a
    bounded column over-count (<= 8 per '<!' in the input), lines may not differ."""
    if len(base) != len(got) or "<!" not in data:
        return False
    slack = 8 * data.count("<!")
    diff = False
    for a, b in zip(base, got):
        if a[2:] != b[2:]:
            return False
        if a[:2] != b[:2]:
            diff = True
            if a[0] != b[0] or not (0 < abs(b[1] - a[1]) <= slack):
                return False
    return diff


def judge_variant(ctx, case, base, variant_name, flat, errs, log, data):
    bflat, berrs = base
    inside = classify_boundaries(ctx, log, len(data))
    ctx.case([data if isinstance(data, str) else data.hex(), variant_name], nontrivial=inside)
    ctx.count("variants")
    ctx.add("variant_kinds", variant_name.split(":")[0])
    c = dict(case, variant=variant_name)
    if flat != bflat:
        ctx.violation("tree-differs:" + variant_name.split(":")[0], c,
                      "%s: %s" % (variant_name, canon.diff_text(bflat, flat, "parse(str)", variant_name)))
        return
    if errs == berrs:
        return
    # listed findings (normalisers)
    e1, b1 = errs, berrs
    used = []
    if norm_errors(e1, "x") == norm_errors(b1, "x") and any(e[2] == "invalid-codepoint" for e in b1):
        ctx.known_finding("invalid-codepoint-position-depends-on-chunking", c,
                          "%s: stream-level invalid-codepoint errors are queued per chunk: %r vs %r" % (variant_name, berrs[:3], errs[:3]))
        return
    r1, n1 = norm_errors(e1, "x")
    r0, n0 = norm_errors(b1, "x")
    if n1 == n0 and (r1 == r0 or unget_shift_explains(r0, r1, data)):
        if n0:
            ctx.known_finding("invalid-codepoint-position-depends-on-chunking", c, variant_name)
        if r1 != r0:
            ctx.known_finding("position-overshoot-after-multichar-unget", c,
                              "%s: columns after a split markup declaration differ: %r vs %r" % (variant_name, r0[:3], r1[:3]))
        return
    i = next((i for i in range(min(len(errs), len(berrs))) if errs[i] != berrs[i]), min(len(errs), len(berrs)))
    ctx.violation("errors-differ:" + variant_name.split(":")[0], c,
                  "%s: error %d: parse(str) %r vs %r (of %d/%d)" % (variant_name, i, berrs[i:i + 2], errs[i:i + 2], len(berrs), len(errs)))


def encodings_for(text, rng, k):
    import webencodings
    ok = []
    for lab in LABELS:
        enc = webencodings.lookup(lab)
        try:
            b = enc.codec_info.encode(text)[0]
            if enc.codec_info.decode(b)[0] == text:
                ok.append((lab, b))
        except (UnicodeError, LookupError):
            pass
    rng.shuffle(ok)
    head = [x for x in ok if x[0] in ("utf-8", "utf-16le")]
    return (head + [x for x in ok if x[0] not in ("utf-8", "utf-16le")])[:k]


def run_input(ctx, data, rng, full):
    install()
    case = {"input": data}
    try:
        bflat, berrs, _ = parse_variant(data)
    except Exception as e:
        ctx.count("baseline_raised")
        return
    base = (bflat, berrs)
    n = len(data)

    def go(name, src_factory, chunk=None, **kw):
        try:
            flat, errs, log = parse_variant(src_factory(), chunk, **kw)
        except Exception as e:
            ctx.violation("variant-raised:%s" % type(e).__name__, dict(case, variant=name), "%s: %r" % (name, e))
            return
        judge_variant(ctx, case, base, name, flat, errs, log, data)
    go("StringIO", lambda: io.StringIO(data))
    scheds = [[1]] + [[k] for k in range(2, 9)]
    for s in scheds:
        go("shorttext:all%d" % s[0], lambda s=s: Short(data, s))
    if n <= 64 or full:
        cuts = range(1, n) if n <= 64 else sorted(set(rng.randrange(1, n) for _ in range(40)))
        for pcut in cuts:
            go("shorttext:cut%d" % pcut, lambda pcut=pcut: Short(data, [pcut], cyclic=False))
    for j in range(3):
        s = [rng.choice([1, 1, 2, 3, 5, 8, 13]) for _ in range(rng.randint(2, 12))]
        go("shorttext:rand%s" % "-".join(map(str, s)), lambda s=s: Short(data, s))
    for ch in (1, 2, 3, 4, 5, 7, 8, 13, 16, 64):
        go("chunk:%d" % ch, lambda: data, chunk=ch)
    # byte variants
    if data[:1] == "﻿":
        ctx.count("leading_bom_text_skipped_for_bytes")
        return
    for lab, b in encodings_for(data, rng, 4 if not full else 12):
        if b[:3] == b"\xef\xbb\xbf" or b[:2] in (b"\xff\xfe", b"\xfe\xff"):
            ctx.count("encoded_text_starts_with_bom_signature_skipped")  # a BOM wins by design (C06)
            continue
        ctx.add("encodings_used", lab)
        go("bytes:%s" % lab, lambda: b, transport_encoding=lab)
        go("BytesIO:%s" % lab, lambda: io.BytesIO(b), transport_encoding=lab)
        go("nonseekable:%s" % lab, lambda: Short(b, [10 ** 9]), transport_encoding=lab)
        s = [rng.choice([1, 1, 2, 3, 5, 8]) for _ in range(rng.randint(2, 8))]
        go("nonseekable-short:%s:%s" % (lab, "-".join(map(str, s))), lambda: Short(b, s), transport_encoding=lab)
        go("nonseekable-chunk2:%s" % lab, lambda: Short(b, [10 ** 9]), chunk=2, transport_encoding=lab)
        go("nonseekable-tell:%s" % lab, lambda: ShortTell(b, [10 ** 9]), transport_encoding=lab)
        go("bytes-chunk3:%s" % lab, lambda: b, chunk=3, transport_encoding=lab)
        go("bytes-chunk1:%s" % lab, lambda: b, chunk=1, transport_encoding=lab)
    for lab, bom in (("utf-8", b"\xef\xbb\xbf"), ("utf-16le", b"\xff\xfe"), ("utf-16be", b"\xfe\xff")):
        try:
            b = bom + data.encode(lab)
        except UnicodeError:
            continue
        go("bom:%s" % lab, lambda: b)
        go("bom-BytesIO-chunk2:%s" % lab, lambda: io.BytesIO(b), chunk=2)
        go("bom-nonseekable:%s" % lab, lambda: Short(b, [10 ** 9]))
        s = [rng.choice([1, 1, 2, 3, 5]) for _ in range(rng.randint(1, 4))]
        go("bom-nonseekable-short:%s:%s" % (lab, "-".join(map(str, s))), lambda: Short(b, s))


CONSTRUCTS = ["a\r\nb", "a\rb", "\r\r\n\n", "a\r", "x&amp;y", "x&notit;y", "x&#x1F600;y", "x&#65y", "<!--c-->", "<!---->x",
              "<!--a--!>b", "<!DOCTYPE html>", "<!doctype html PUBLIC \"a\" 'b'>", "<!DOCTYPE html SYSTEM 'x'>z",
              "<svg><![CDATA[x]]>y", "<svg><![CDATA[]]]]>y", "<title>a</title>b", "<title>a</titlx>b</title>",
              "<script>a</script>b", "<script><!--<script>x</script>--></script>y", "<textarea>a</textareax></textarea>",
              "<div class='a b' id=\"c\" d=e>f", "<a href=x&amp;y=z>", "\U0001F600\U0001F601x", "é€x", "<p>\ud800x",
              "a\x00b", "<a\x00b>", "\x01\x02﷐", "<!DOCTYPEhtml>x", "<!-x", "<!DOCTYP x>", "<![CDAT", "<svg><![CDAT x",
              "x<!DOCTYPE html>\x01y<!--", "\r\n<!-\r\n\x01", "</title >", "<style>a</style  >b", "<plaintext>a\r\nb",
              "<table>a\r\nb<tr>c", "<pre>\r\nx", "<textarea>\r\n\r\nx", "&\r\n", "&#\r", "&#x\r\n", "<a b='\r\n'>", "<a\r\nb\r=\r\nc>"]


def shard(ctx):
    install()
    k = 0
    for c in CONSTRUCTS:
        for wrap in ("%s", "ab%s", "%s%s"):
            k += 1
            if ctx.mine(k):
                data = wrap % ((c, c) if wrap.count("%s") == 2 else c)
                run_input(ctx, data, ctx.rng("constructs", k), True)
                ctx.count("construct_inputs")
    for qi, q in enumerate(gen.token_sequences(ctx, 2, 3, 0.5, suffix="x\r\ny")):
        run_input(ctx, q, ctx.rng("seq", qi), False)
        ctx.count("sequence_inputs")
    n, idx = 0, ctx.i
    limit = (12000 if ctx.tier == "quick" else 150000) // ctx.n
    t_end = time.time() + ctx.time_left()
    while n < limit and time.time() < t_end:
        rng = ctx.rng("rand", idx)
        idx += ctx.n
        n += 1
        r = rng.random()
        if r < 0.5:
            data = gen.soup(rng, 8)[:64]
        elif r < 0.8:
            data = "".join(rng.choice(CONSTRUCTS + gen.TEXTS + gen.COMMENTS + gen.DOCTYPES + gen.WS) for _ in range(rng.randint(1, 4)))
        else:
            data = gen.soup(rng, 40)
        run_input(ctx, data, rng, False)
        ctx.count("random_inputs")
        if n <= 2 and ctx.i == 0:
            ctx.sample({"input": short(data, 200), "variants": "StringIO, shorttext:*, chunk:*, bytes:*, bom:*"})


def replay(ctx, case):
    install()
    data = case["input"]
    v = case.get("variant")
    rng = ctx.rng("replay", 0)
    if not v:
        run_input(ctx, data, rng, True)
        return
    # re-run exactly the named variant
    bflat, berrs, _ = parse_variant(data)
    kind = v.split(":")
    src, chunk, kw = None, None, {}
    import webencodings
    if kind[0] == "StringIO":
        src = io.StringIO(data)
    elif kind[0] == "shorttext":
        spec = kind[1]
        if spec.startswith("all"):
            src = Short(data, [int(spec[3:])])
        elif spec.startswith("cut"):
            src = Short(data, [int(spec[3:])], cyclic=False)
        else:
            src = Short(data, [int(x) for x in spec[4:].split("-")])
    elif kind[0] == "chunk":
        src, chunk = data, int(kind[1])
    elif kind[0] in ("bytes", "BytesIO", "nonseekable", "nonseekable-short", "bytes-chunk3", "bytes-chunk1", "nonseekable-chunk2", "nonseekable-tell"):
        lab = kind[1]
        b = webencodings.lookup(lab).codec_info.encode(data)[0]
        kw = {"transport_encoding": lab}
        src = {"bytes": b, "BytesIO": io.BytesIO(b), "nonseekable": Short(b, [10 ** 9]), "bytes-chunk3": b, "bytes-chunk1": b,
               "nonseekable-chunk2": Short(b, [10 ** 9]), "nonseekable-tell": ShortTell(b, [10 ** 9])}.get(kind[0])
        if kind[0] == "nonseekable-short":
            src = Short(b, [int(x) for x in kind[2].split("-")])
        chunk = {"bytes-chunk3": 3, "bytes-chunk1": 1, "nonseekable-chunk2": 2}.get(kind[0])
    elif kind[0].startswith("bom"):
        lab = kind[1]
        bom = {"utf-8": b"\xef\xbb\xbf", "utf-16le": b"\xff\xfe", "utf-16be": b"\xfe\xff"}[lab]
        b = bom + data.encode(lab)
        src = {"bom": b, "bom-BytesIO-chunk2": io.BytesIO(b), "bom-nonseekable": Short(b, [10 ** 9]),
               "bom-nonseekable-short": Short(b, [int(x) for x in kind[2].split("-")] if len(kind) > 2 else [1])}[kind[0]]
        chunk = 2 if kind[0] == "bom-BytesIO-chunk2" else None
    flat, errs, log = parse_variant(src, chunk, **kw)
    judge_variant(ctx, {"input": data}, (bflat, berrs), v, flat, errs, log, data)


def finalize(m, v):
    gen.sequences_inconclusive(m)
    c = m["counters"]
    states = m["sets"].get("boundary_states", set())
    if len(states) < 40:
        m["inconclusive"].append("chunk boundaries fell in only %d distinct tokenizer states (< 40)" % len(states))
    if c.get("boundary_after_CR", 0) < 100 or c.get("boundary_inside_surrogate_pair", 0) < 20:
        m["inconclusive"].append("too few boundaries after CR (%d) or inside a surrogate pair (%d)" % (
            c.get("boundary_after_CR", 0), c.get("boundary_inside_surrogate_pair", 0)))
    if len(m["sets"].get("encodings_used", ())) < 20:
        m["inconclusive"].append("fewer than 20 encodings exercised")
    if c.get("variants", 0) < 50000:
        m["inconclusive"].append("fewer than 50000 variants judged")
    return {"boundary_state_count": len(states)}
