"""R-tok: the WHATWG HTML tokenizer (2020 text), written from the standard's state list; shares nothing with html5lib.

Tokens (tuples):
    ("doctype", name or "", public_id or None, system_id or None, force_quirks)
    ("start", name, ((attr, value), ...), self_closing)      first duplicate attribute wins, source order
    ("end", name)
    ("comment", data)
    ("chars", text)                                         adjacent character tokens already merged
The consumer may assign .state between tokens (tree construction switching to RCDATA etc.) and supplies
cdata_allowed() (adjusted current node is not in the HTML namespace).  parse errors are not modelled.
"""
from . import charref

WS = "\t\n\x0c "
UPPER = "ABCDEFGHIJKLMNOPQRSTUVWXYZ"
ALPHA = "abcdefghijklmnopqrstuvwxyzABCDEFGHIJKLMNOPQRSTUVWXYZ"
REPL = "\ufffd"


def preprocess(text):
    return text.replace("\r\n", "\n").replace("\r", "\n")


def lower_ascii(c):
    return c.lower() if c in UPPER else c


class RTok(object):
    def __init__(self, text, state="data", last_start_tag=None, cdata_allowed=None, switches=()):
        self.switches = frozenset(switches)
        self.s = preprocess(text)
        self.n = len(self.s)
        self.pos = 0
        self.state = state
        self.last_start = last_start_tag
        self.cdata_allowed = cdata_allowed or (lambda: False)
        self.q = []
        self.text = []
        self.want_pieces = False
        self.done = False
        self.tmp = []
        self.ret = None
        # current tag
        self.tag_kind = None
        self.tag_name = []
        self.attrs = []
        self.attr = None
        self.self_closing = False
        self.end_details = False
        self.comment = []
        self.dt = None

    # ------------------------------------------------------------------ helpers
    def nxt(self):
        if self.pos >= self.n:
            self.pos += 1
            return None
        c = self.s[self.pos]
        self.pos += 1
        return c

    def back(self):
        self.pos -= 1

    def ch(self, c):
        self.text.append(c)

    def ch_ref(self, c):
        # output of a character reference: a token of its own in html5lib's tokenizer
        self.text.append(("R", c))

    def flush(self):
        if self.text:
            parts = self.text
            self.text = []
            plain = "".join(p if isinstance(p, str) else p[1] for p in parts)
            if self.want_pieces and self.state == "plaintext":
                # html5lib's PLAINTEXT state never emits SpaceCharacters tokens: everything is a Characters token
                self.q.append(("chars", plain, [("C", plain)]))
                return
            if self.want_pieces:
                pieces = []
                run = []

                def close_run():
                    r = "".join(run)
                    del run[:]
                    i, n = 0, len(r)
                    while i < n:
                        c = r[i]
                        j = i + 1
                        if c == "\x00":
                            pass
                        elif c in WS:
                            while j < n and r[j] in WS:
                                j += 1
                        else:
                            while j < n and r[j] != "\x00":
                                j += 1
                        pieces.append(r[i:j])
                        i = j
                for p in parts:
                    if isinstance(p, str):
                        run.append(p)
                    else:
                        close_run()
                        if p[1]:
                            pieces.append(p[1])
                close_run()
                self.q.append(("chars", plain, pieces))
            else:
                self.q.append(("chars", plain))

    def emit(self, tok):
        self.flush()
        self.q.append(tok)

    def eof(self):
        self.flush()
        self.done = True

    def new_tag(self, kind):
        self.tag_kind = kind
        self.tag_name = []
        self.attrs = []
        self.attr = None
        self.self_closing = False

    def start_attr(self):
        self.attr = [[], [], False]
        self.attrs.append(self.attr)

    def finish_attr_name(self):
        a = self.attr
        if a is not None and not a[2]:
            nm = "".join(a[0])
            for b in self.attrs:
                if b is not a and not b[2] and "".join(b[0]) == nm and b is not a:
                    a[2] = True  # duplicate: dropped (its value is still consumed)
                    break

    def emit_tag(self):
        name = "".join(self.tag_name)
        if self.tag_kind == "start":
            attrs = tuple(("".join(a[0]), "".join(a[1])) for a in self.attrs if not a[2])
            self.last_start = name
            self.emit(("start", name, attrs, self.self_closing))
        elif self.end_details:
            # C02 only: the standard's end tag token carries attributes and the self-closing flag too
            attrs = tuple(("".join(a[0]), "".join(a[1])) for a in self.attrs if not a[2])
            self.emit(("end", name, attrs, self.self_closing))
        else:
            self.emit(("end", name))

    def emit_comment(self):
        self.emit(("comment", "".join(self.comment)))

    def emit_doctype(self):
        d = self.dt
        self.emit(("doctype", "".join(d["name"]) if d["name"] is not None else "",
                   "".join(d["pub"]) if d["pub"] is not None else None,
                   "".join(d["sys"]) if d["sys"] is not None else None, d["fq"]))

    def appropriate(self):
        return self.last_start is not None and "".join(self.tag_name) == self.last_start

    # ------------------------------------------------------------------ driver
    def tokens(self):
        while True:
            while self.q:
                yield self.q.pop(0)
            if self.done:
                return
            getattr(self, "s_" + self.state)()

    # ------------------------------------------------------------------ character references
    def charref_in(self, in_attr):
        """'&' has just been consumed at pos-1; decode and append to the attribute value or emit as text."""
        t, j = charref.consume(self.s, self.pos - 1, in_attr)
        if not in_attr and self.want_pieces and self.pos < self.n and self.s[self.pos] in charref.ALNUM:
            # html5lib emits, as ONE character token, the replacement plus every further character it had consumed
            # while the characters still formed a prefix of some entity name (token granularity only; same text)
            a = self.pos
            m = 0
            while a + m < self.n and self.s[a:a + m + 1] in charref._PREFIXES:
                m += 1
            if a + m > j:
                t = t + self.s[j:a + m]
                j = a + m
        self.pos = j
        if in_attr:
            self.attr[1].append(t)
        else:
            self.ch_ref(t)

    # ------------------------------------------------------------------ content states
    def s_data(self):
        s, n = self.s, self.n
        while True:
            c = self.nxt()
            if c == "&":
                self.charref_in(False)
            elif c == "<":
                self.state = "tag_open"
                return
            elif c is None:
                return self.eof()
            else:
                self.ch(c)  # NUL is emitted as is (parse error); tree construction decides

    def s_rcdata(self):
        while True:
            c = self.nxt()
            if c == "&":
                self.charref_in(False)
            elif c == "<":
                self.state = "rcdata_lt"
                return
            elif c == "\x00":
                self.ch(REPL)
            elif c is None:
                return self.eof()
            else:
                self.ch(c)

    def s_rawtext(self):
        while True:
            c = self.nxt()
            if c == "<":
                self.state = "rawtext_lt"
                return
            elif c == "\x00":
                self.ch(REPL)
            elif c is None:
                return self.eof()
            else:
                self.ch(c)

    def s_script(self):
        while True:
            c = self.nxt()
            if c == "<":
                self.state = "script_lt"
                return
            elif c == "\x00":
                self.ch(REPL)
            elif c is None:
                return self.eof()
            else:
                self.ch(c)

    def s_plaintext(self):
        while True:
            c = self.nxt()
            if c == "\x00":
                self.ch(REPL)
            elif c is None:
                return self.eof()
            else:
                self.ch(c)

    # ------------------------------------------------------------------ tags
    def s_tag_open(self):
        c = self.nxt()
        if c == "!":
            self.state = "markup_decl_open"
        elif c == "/":
            self.state = "end_tag_open"
        elif c is not None and c in ALPHA:
            self.new_tag("start")
            self.back()
            self.state = "tag_name"
        elif c == "?":
            self.comment = []
            self.back()
            self.state = "bogus_comment"
        elif c is None:
            self.ch_ref("<")
            self.eof()
        elif c == ">" and self.want_pieces:
            # same text; html5lib emits the two characters "<>" as one character token
            self.ch_ref("<>")
            self.state = "data"
        else:
            self.ch_ref("<")
            self.back()
            self.state = "data"

    def s_end_tag_open(self):
        c = self.nxt()
        if c is not None and c in ALPHA:
            self.new_tag("end")
            self.back()
            self.state = "tag_name"
        elif c == ">":
            if self.want_pieces and self.text:
                self.ch_ref("")  # '</>' emits nothing, but html5lib's character token ended at its '<'
            self.state = "data"
        elif c is None:
            self.ch_ref("</")
            self.eof()
        else:
            self.comment = []
            self.back()
            self.state = "bogus_comment"

    def s_tag_name(self):
        while True:
            c = self.nxt()
            if c is None:
                return self.eof()
            if c in WS:
                self.state = "before_attr_name"
                return
            if c == "/":
                self.state = "self_closing"
                return
            if c == ">":
                self.state = "data"
                self.emit_tag()
                return
            if c == "\x00":
                self.tag_name.append(REPL)
            else:
                self.tag_name.append(lower_ascii(c))

    # generic "<" handling inside RCDATA / RAWTEXT / script data
    def _lt(self, content_state, open_state):
        c = self.nxt()
        if c == "/":
            self.tmp = []
            self.state = open_state
        else:
            self.ch_ref("<")
            self.back()
            self.state = content_state

    def _end_open(self, content_state, name_state):
        c = self.nxt()
        if c is not None and c in ALPHA:
            self.new_tag("end")
            self.back()
            self.state = name_state
        else:
            self.ch_ref("</")
            self.back()
            self.state = content_state

    def _end_name(self, content_state):
        while True:
            c = self.nxt()
            if c is not None and c in WS and self.appropriate():
                self.state = "before_attr_name"
                return
            if c == "/" and self.appropriate():
                self.state = "self_closing"
                return
            if c == ">" and self.appropriate():
                self.state = "data"
                self.emit_tag()
                return
            if c is not None and c in ALPHA:
                self.tag_name.append(lower_ascii(c))
                self.tmp.append(c)
                continue
            self.ch_ref("</" + "".join(self.tmp))
            self.back()
            self.state = content_state
            return

    def s_rcdata_lt(self):
        self._lt("rcdata", "rcdata_end_open")

    def s_rcdata_end_open(self):
        self._end_open("rcdata", "rcdata_end_name")

    def s_rcdata_end_name(self):
        self._end_name("rcdata")

    def s_rawtext_lt(self):
        self._lt("rawtext", "rawtext_end_open")

    def s_rawtext_end_open(self):
        self._end_open("rawtext", "rawtext_end_name")

    def s_rawtext_end_name(self):
        self._end_name("rawtext")

    def s_script_lt(self):
        c = self.nxt()
        if c == "/":
            self.tmp = []
            self.state = "script_end_open"
        elif c == "!":
            self.state = "script_escape_start"
            self.ch("<!")
        else:
            self.ch("<")
            self.back()
            self.state = "script"

    def s_script_end_open(self):
        self._end_open("script", "script_end_name")

    def s_script_end_name(self):
        self._end_name("script")

    def s_script_escape_start(self):
        c = self.nxt()
        if c == "-":
            self.state = "script_escape_start_dash"
            self.ch("-")
        else:
            self.back()
            self.state = "script"

    def s_script_escape_start_dash(self):
        c = self.nxt()
        if c == "-":
            self.state = "script_escaped_dash_dash"
            self.ch("-")
        else:
            self.back()
            self.state = "script"

    def s_script_escaped(self):
        while True:
            c = self.nxt()
            if c == "-":
                self.state = "script_escaped_dash"
                self.ch("-")
                return
            if c == "<":
                self.state = "script_escaped_lt"
                return
            if c == "\x00":
                self.ch(REPL)
            elif c is None:
                return self.eof()
            else:
                self.ch(c)

    def s_script_escaped_dash(self):
        c = self.nxt()
        if c == "-":
            self.state = "script_escaped_dash_dash"
            self.ch("-")
        elif c == "<":
            self.state = "script_escaped_lt"
        elif c == "\x00":
            self.state = "script_escaped"
            self.ch(REPL)
        elif c is None:
            self.eof()
        else:
            self.state = "script_escaped"
            self.ch(c)

    def s_script_escaped_dash_dash(self):
        c = self.nxt()
        if c == "-":
            self.ch("-")
        elif c == "<":
            self.state = "script_escaped_lt"
        elif c == ">":
            self.state = "script"
            self.ch(">")
        elif c == "\x00":
            self.state = "script_escaped"
            self.ch(REPL)
        elif c is None:
            self.eof()
        else:
            self.state = "script_escaped"
            self.ch(c)

    def s_script_escaped_lt(self):
        c = self.nxt()
        if c == "/":
            self.tmp = []
            self.state = "script_escaped_end_open"
        elif c is not None and c in ALPHA:
            self.tmp = []
            self.ch("<")
            self.back()
            self.state = "script_double_escape_start"
        else:
            self.ch("<")
            self.back()
            self.state = "script_escaped"

    def s_script_escaped_end_open(self):
        self._end_open("script_escaped", "script_escaped_end_name")

    def s_script_escaped_end_name(self):
        self._end_name("script_escaped")

    def s_script_double_escape_start(self):
        while True:
            c = self.nxt()
            if c is not None and (c in WS or c in "/>"):
                self.state = "script_double_escaped" if "".join(self.tmp) == "script" else "script_escaped"
                self.ch(c)
                return
            if c is not None and c in ALPHA:
                self.tmp.append(lower_ascii(c))
                self.ch(c)
                continue
            self.back()
            self.state = "script_escaped"
            return

    def s_script_double_escaped(self):
        while True:
            c = self.nxt()
            if c == "-":
                self.state = "script_double_escaped_dash"
                self.ch("-")
                return
            if c == "<":
                self.state = "script_double_escaped_lt"
                self.ch("<")
                return
            if c == "\x00":
                self.ch(REPL)
            elif c is None:
                return self.eof()
            else:
                self.ch(c)

    def s_script_double_escaped_dash(self):
        c = self.nxt()
        if c == "-":
            self.state = "script_double_escaped_dash_dash"
            self.ch("-")
        elif c == "<":
            self.state = "script_double_escaped_lt"
            self.ch("<")
        elif c == "\x00":
            self.state = "script_double_escaped"
            self.ch(REPL)
        elif c is None:
            self.eof()
        else:
            self.state = "script_double_escaped"
            self.ch(c)

    def s_script_double_escaped_dash_dash(self):
        c = self.nxt()
        if c == "-":
            self.ch("-")
        elif c == "<":
            self.state = "script_double_escaped_lt"
            self.ch("<")
        elif c == ">":
            self.state = "script"
            self.ch(">")
        elif c == "\x00":
            self.state = "script_double_escaped"
            self.ch(REPL)
        elif c is None:
            self.eof()
        else:
            self.state = "script_double_escaped"
            self.ch(c)

    def s_script_double_escaped_lt(self):
        c = self.nxt()
        if c == "/":
            self.tmp = []
            self.state = "script_double_escape_end"
            self.ch("/")
        else:
            self.back()
            self.state = "script_double_escaped"

    def s_script_double_escape_end(self):
        while True:
            c = self.nxt()
            if c is not None and (c in WS or c in "/>"):
                self.state = "script_escaped" if "".join(self.tmp) == "script" else "script_double_escaped"
                self.ch(c)
                return
            if c is not None and c in ALPHA:
                self.tmp.append(lower_ascii(c))
                self.ch(c)
                continue
            self.back()
            self.state = "script_double_escaped"
            return

    # ------------------------------------------------------------------ attributes
    def s_before_attr_name(self):
        while True:
            c = self.nxt()
            if c is not None and c in WS:
                continue
            if c is None or c in "/>":
                self.back()
                self.state = "after_attr_name"
                return
            if c == "=":
                self.start_attr()
                self.attr[0].append("=")
                self.state = "attr_name"
                return
            self.start_attr()
            self.back()
            self.state = "attr_name"
            return

    def s_attr_name(self):
        while True:
            c = self.nxt()
            if c is None or c in WS or c in "/>":
                self.back()
                self.finish_attr_name()
                self.state = "after_attr_name"
                return
            if c == "=":
                self.finish_attr_name()
                self.state = "before_attr_value"
                return
            if c == "\x00":
                self.attr[0].append(REPL)
            else:
                self.attr[0].append(lower_ascii(c))

    def s_after_attr_name(self):
        while True:
            c = self.nxt()
            if c is not None and c in WS:
                continue
            if c == "/":
                self.state = "self_closing"
                return
            if c == "=":
                self.state = "before_attr_value"
                return
            if c == ">":
                self.state = "data"
                self.emit_tag()
                return
            if c is None:
                return self.eof()
            self.start_attr()
            self.back()
            self.state = "attr_name"
            return

    def s_before_attr_value(self):
        while True:
            c = self.nxt()
            if c is not None and c in WS:
                continue
            if c == '"':
                self.state = "attr_value_dq"
                return
            if c == "'":
                self.state = "attr_value_sq"
                return
            if c == ">":
                self.state = "data"
                self.emit_tag()
                return
            self.back()
            self.state = "attr_value_uq"
            return

    def _attr_value_quoted(self, q):
        while True:
            c = self.nxt()
            if c == q:
                self.state = "after_attr_value_q"
                return
            if c == "&":
                self.charref_in(True)
            elif c == "\x00":
                self.attr[1].append(REPL)
            elif c is None:
                return self.eof()
            else:
                self.attr[1].append(c)

    def s_attr_value_dq(self):
        self._attr_value_quoted('"')

    def s_attr_value_sq(self):
        self._attr_value_quoted("'")

    def s_attr_value_uq(self):
        while True:
            c = self.nxt()
            if c is None:
                return self.eof()
            if c in WS:
                self.state = "before_attr_name"
                return
            if c == "&":
                self.charref_in(True)
            elif c == ">":
                self.state = "data"
                self.emit_tag()
                return
            elif c == "\x00":
                self.attr[1].append(REPL)
            else:
                self.attr[1].append(c)

    def s_after_attr_value_q(self):
        c = self.nxt()
        if c is None:
            return self.eof()
        if c in WS:
            self.state = "before_attr_name"
        elif c == "/":
            self.state = "self_closing"
        elif c == ">":
            self.state = "data"
            self.emit_tag()
        else:
            self.back()
            self.state = "before_attr_name"

    def s_self_closing(self):
        c = self.nxt()
        if c == ">":
            self.self_closing = True
            self.state = "data"
            self.emit_tag()
        elif c is None:
            self.eof()
        else:
            self.back()
            self.state = "before_attr_name"

    # ------------------------------------------------------------------ comments
    def s_bogus_comment(self):
        while True:
            c = self.nxt()
            if c == ">":
                self.state = "data"
                self.emit_comment()
                return
            if c is None:
                self.emit_comment()
                return self.eof()
            self.comment.append(REPL if c == "\x00" else c)

    def s_markup_decl_open(self):
        s, p = self.s, self.pos
        if s.startswith("--", p):
            self.pos += 2
            self.comment = []
            self.state = "comment_start"
        elif s[p:p + 7].lower() == "doctype" and all(ord(x) < 128 for x in s[p:p + 7]):
            self.pos += 7
            self.state = "doctype"
        elif s.startswith("[CDATA[", p):
            self.pos += 7
            if self.cdata_allowed():
                self.state = "cdata"
            else:
                self.comment = list("[CDATA[")
                self.state = "bogus_comment"
        else:
            self.comment = []
            self.state = "bogus_comment"

    def s_comment_start(self):
        c = self.nxt()
        if c == "-":
            self.state = "comment_start_dash"
        elif c == ">":
            self.state = "data"
            self.emit_comment()
        else:
            self.back()
            self.state = "comment"

    def s_comment_start_dash(self):
        c = self.nxt()
        if c == "-":
            self.state = "comment_end"
        elif c == ">":
            self.state = "data"
            self.emit_comment()
        elif c is None:
            self.emit_comment()
            self.eof()
        else:
            self.comment.append("-")
            self.back()
            self.state = "comment"

    def s_comment(self):
        while True:
            c = self.nxt()
            if c == "<":
                self.comment.append("<")
                self.state = "comment_lt"
                return
            if c == "-":
                self.state = "comment_end_dash"
                return
            if c == "\x00":
                self.comment.append(REPL)
            elif c is None:
                self.emit_comment()
                return self.eof()
            else:
                self.comment.append(c)

    def s_comment_lt(self):
        c = self.nxt()
        if c == "!":
            self.comment.append("!")
            self.state = "comment_lt_bang"
        elif c == "<":
            self.comment.append("<")
        else:
            self.back()
            self.state = "comment"

    def s_comment_lt_bang(self):
        c = self.nxt()
        if c == "-":
            self.state = "comment_lt_bang_dash"
        else:
            self.back()
            self.state = "comment"

    def s_comment_lt_bang_dash(self):
        c = self.nxt()
        if c == "-":
            self.state = "comment_lt_bang_dash_dash"
        else:
            self.back()
            self.state = "comment_end_dash"

    def s_comment_lt_bang_dash_dash(self):
        self.nxt()
        self.back()
        self.state = "comment_end"

    def s_comment_end_dash(self):
        c = self.nxt()
        if c == "-":
            self.state = "comment_end"
        elif c is None:
            self.emit_comment()
            self.eof()
        else:
            self.comment.append("-")
            self.back()
            self.state = "comment"

    def s_comment_end(self):
        c = self.nxt()
        if c == ">":
            self.state = "data"
            self.emit_comment()
        elif c == "!":
            self.state = "comment_end_bang"
        elif c == "-":
            self.comment.append("-")
        elif c is None:
            self.emit_comment()
            self.eof()
        else:
            self.comment.append("--")
            self.back()
            self.state = "comment"

    def s_comment_end_bang(self):
        c = self.nxt()
        if c == "-":
            self.comment.append("--!")
            self.state = "comment_end_dash"
        elif c == ">":
            self.state = "data"
            self.emit_comment()
        elif c is None:
            self.emit_comment()
            self.eof()
        else:
            self.comment.append("--!")
            self.back()
            self.state = "comment"

    # ------------------------------------------------------------------ doctype
    def s_doctype(self):
        c = self.nxt()
        if c is not None and c in WS:
            self.state = "before_doctype_name"
        elif c == ">":
            self.back()
            self.state = "before_doctype_name"
        elif c is None:
            self.dt = {"name": None, "pub": None, "sys": None, "fq": True}
            self.emit_doctype()
            self.eof()
        else:
            self.back()
            self.state = "before_doctype_name"

    def s_before_doctype_name(self):
        while True:
            c = self.nxt()
            if c is not None and c in WS:
                continue
            self.dt = {"name": None, "pub": None, "sys": None, "fq": False}
            if c == ">":
                self.dt["fq"] = True
                self.state = "data"
                self.emit_doctype()
            elif c is None:
                self.dt["fq"] = True
                self.emit_doctype()
                self.eof()
            else:
                self.dt["name"] = [REPL if c == "\x00" else lower_ascii(c)]
                self.state = "doctype_name"
            return

    def s_doctype_name(self):
        while True:
            c = self.nxt()
            if c is None:
                self.dt["fq"] = True
                self.emit_doctype()
                return self.eof()
            if c in WS:
                self.state = "after_doctype_name"
                return
            if c == ">":
                self.state = "data"
                self.emit_doctype()
                return
            self.dt["name"].append(REPL if c == "\x00" else lower_ascii(c))

    def s_after_doctype_name(self):
        while True:
            c = self.nxt()
            if c is not None and c in WS:
                continue
            if c == ">":
                self.state = "data"
                self.emit_doctype()
                return
            if c is None:
                self.dt["fq"] = True
                self.emit_doctype()
                return self.eof()
            six = self.s[self.pos - 1:self.pos + 5]
            if len(six) == 6 and all(ord(x) < 128 for x in six) and six.lower() == "public":
                self.pos += 5
                self.state = "after_doctype_public_kw"
            elif len(six) == 6 and all(ord(x) < 128 for x in six) and six.lower() == "system":
                self.pos += 5
                self.state = "after_doctype_system_kw"
            else:
                self.dt["fq"] = True
                self.back()
                self.state = "bogus_doctype"
            return

    def _doctype_eof(self):
        self.dt["fq"] = True
        self.emit_doctype()
        self.eof()

    def s_after_doctype_public_kw(self):
        c = self.nxt()
        if c is None:
            return self._doctype_eof()
        if c in WS:
            self.state = "before_doctype_public_id"
        elif c == '"':
            self.dt["pub"] = []
            self.state = "doctype_public_id_dq"
        elif c == "'":
            self.dt["pub"] = []
            self.state = "doctype_public_id_sq"
        elif c == ">":
            self.dt["fq"] = True
            self.state = "data"
            self.emit_doctype()
        else:
            self.dt["fq"] = True
            self.back()
            self.state = "bogus_doctype"

    def s_before_doctype_public_id(self):
        while True:
            c = self.nxt()
            if c is None:
                return self._doctype_eof()
            if c in WS:
                continue
            if c == '"':
                self.dt["pub"] = []
                self.state = "doctype_public_id_dq"
            elif c == "'":
                self.dt["pub"] = []
                self.state = "doctype_public_id_sq"
            elif c == ">":
                self.dt["fq"] = True
                self.state = "data"
                self.emit_doctype()
            else:
                self.dt["fq"] = True
                self.back()
                self.state = "bogus_doctype"
            return

    def _doctype_id(self, key, q, after):
        while True:
            c = self.nxt()
            if c is None:
                return self._doctype_eof()
            if c == q:
                self.state = after
                return
            if c == ">":
                self.dt["fq"] = True
                self.state = "data"
                self.emit_doctype()
                return
            self.dt[key].append(REPL if c == "\x00" else c)

    def s_doctype_public_id_dq(self):
        self._doctype_id("pub", '"', "after_doctype_public_id")

    def s_doctype_public_id_sq(self):
        self._doctype_id("pub", "'", "after_doctype_public_id")

    def s_after_doctype_public_id(self):
        c = self.nxt()
        if c is None:
            return self._doctype_eof()
        if c in WS:
            self.state = "between_doctype_ids"
        elif c == ">":
            self.state = "data"
            self.emit_doctype()
        elif c == '"':
            self.dt["sys"] = []
            self.state = "doctype_system_id_dq"
        elif c == "'":
            self.dt["sys"] = []
            self.state = "doctype_system_id_sq"
        else:
            self.dt["fq"] = True
            self.back()
            self.state = "bogus_doctype"

    def s_between_doctype_ids(self):
        while True:
            c = self.nxt()
            if c is None:
                return self._doctype_eof()
            if c in WS:
                continue
            if c == ">":
                self.state = "data"
                self.emit_doctype()
            elif c == '"':
                self.dt["sys"] = []
                self.state = "doctype_system_id_dq"
            elif c == "'":
                self.dt["sys"] = []
                self.state = "doctype_system_id_sq"
            else:
                self.dt["fq"] = True
                self.back()
                self.state = "bogus_doctype"
            return

    def s_after_doctype_system_kw(self):
        c = self.nxt()
        if c is None:
            return self._doctype_eof()
        if c in WS:
            self.state = "before_doctype_system_id"
        elif c == '"':
            self.dt["sys"] = []
            self.state = "doctype_system_id_dq"
        elif c == "'":
            self.dt["sys"] = []
            self.state = "doctype_system_id_sq"
        elif c == ">":
            self.dt["fq"] = True
            self.state = "data"
            self.emit_doctype()
        else:
            self.dt["fq"] = True
            self.back()
            self.state = "bogus_doctype"

    def s_before_doctype_system_id(self):
        while True:
            c = self.nxt()
            if c is None:
                return self._doctype_eof()
            if c in WS:
                continue
            if c == '"':
                self.dt["sys"] = []
                self.state = "doctype_system_id_dq"
            elif c == "'":
                self.dt["sys"] = []
                self.state = "doctype_system_id_sq"
            elif c == ">":
                self.dt["fq"] = True
                self.state = "data"
                self.emit_doctype()
            else:
                self.dt["fq"] = True
                self.back()
                self.state = "bogus_doctype"
            return

    def s_doctype_system_id_dq(self):
        self._doctype_id("sys", '"', "after_doctype_system_id")

    def s_doctype_system_id_sq(self):
        self._doctype_id("sys", "'", "after_doctype_system_id")

    def s_after_doctype_system_id(self):
        while True:
            c = self.nxt()
            if c is None:
                return self._doctype_eof()
            if c in WS:
                continue
            if c == ">":
                self.state = "data"
                self.emit_doctype()
            else:
                self.back()
                self.state = "bogus_doctype"  # does not set force-quirks
            return

    def s_bogus_doctype(self):
        while True:
            c = self.nxt()
            if c == ">":
                self.state = "data"
                self.emit_doctype()
                return
            if c is None:
                self.emit_doctype()
                return self.eof()

    # ------------------------------------------------------------------ CDATA
    def s_cdata(self):
        while True:
            c = self.nxt()
            if c == "]":
                self.state = "cdata_bracket"
                return
            if c is None:
                return self.eof()
            if c == "\x00" and "cdata-nul-replaced-by-tokenizer" in self.switches:
                c = REPL  # html5lib deals with NUL in CDATA sections in the tokenizer (listed finding)
            self.ch(c)

    def s_cdata_bracket(self):
        c = self.nxt()
        if c == "]":
            self.state = "cdata_end"
        else:
            self.ch("]")
            self.back()
            self.state = "cdata"

    def s_cdata_end(self):
        c = self.nxt()
        if c == "]":
            self.ch("]")
        elif c == ">":
            self.state = "data"
        else:
            self.ch("]]")
            self.back()
            self.state = "cdata"


def tokenize(text, state="data", last_start_tag=None, cdata=False, switches=(), end_details=False):
    t = RTok(text, state, last_start_tag, (lambda: True) if cdata else None, switches)
    t.end_details = end_details
    return list(t.tokens())
