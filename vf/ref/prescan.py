"""R-prescan: the WHATWG encoding-sniffing prescan, written from the standard's step list (prescan_spec), and a
separate model of html5lib's own mini-parser as it behaves on the pinned tree (prescan_h5), used ONLY to decide
whether a disagreement with the standard is the listed finding (exact reproduction required) or a violation.
"""
SP = (b"\t", b"\n", b"\x0c", b"\r", b" ")


class End(Exception):
    pass


# ---------------------------------------------------------------------------------------------- the standard
def extract_from_content(value):
    """'algorithm for extracting a character encoding from a meta element' -> label bytes or None"""
    low = value.lower()
    pos = 0
    n = len(value)
    while True:
        i = low.find(b"charset", pos)
        if i < 0:
            return None
        pos = i + 7
        while pos < n and value[pos:pos + 1] in SP:
            pos += 1
        if pos >= n:
            return None
        if value[pos:pos + 1] != b"=":
            continue
        pos += 1
        while pos < n and value[pos:pos + 1] in SP:
            pos += 1
        if pos >= n:
            return None
        q = value[pos:pos + 1]
        if q in (b'"', b"'"):
            j = value.find(q, pos + 1)
            if j < 0:
                return None
            return value[pos + 1:j]
        j = pos
        while j < n and value[j:j + 1] not in SP and value[j:j + 1] != b";":
            j += 1
        return value[pos:j]


def get_attribute(d, pos):
    """'get an attribute' -> (name, value, newpos) or (None, None, newpos).  Raises End past the data."""
    n = len(d)

    def at(p):
        if p >= n:
            raise End()
        return d[p:p + 1]
    while at(pos) in SP or at(pos) == b"/":
        pos += 1
    if at(pos) == b">":
        return None, None, pos
    name = []
    value = []
    while True:
        c = at(pos)
        if c == b"=" and name:
            pos += 1
            break
        if c in SP:
            while at(pos) in SP:
                pos += 1
            if at(pos) != b"=":
                return b"".join(name), b"", pos
            pos += 1
            break
        if c in (b"/", b">"):
            return b"".join(name), b"", pos
        name.append(c.lower())
        pos += 1
    while at(pos) in SP:
        pos += 1
    c = at(pos)
    if c in (b'"', b"'"):
        q = c
        while True:
            pos += 1
            c = at(pos)
            if c == q:
                return b"".join(name), b"".join(value), pos + 1
            value.append(c.lower())
    if c == b">":
        return b"".join(name), b"", pos
    value.append(c.lower())
    pos += 1
    while True:
        c = at(pos)
        if c in SP or c == b">":
            return b"".join(name), b"".join(value), pos
        value.append(c.lower())
        pos += 1


def _alpha(b):
    return len(b) == 1 and (b"a" <= b <= b"z" or b"A" <= b <= b"Z")


def prescan_spec(data, lookup, window=1024):
    """lookup(label bytes) -> canonical encoding name or None.  Returns a canonical name or None."""
    d = data[:window]
    n = len(d)
    low = d.lower()
    pos = 0
    try:
        while pos < n:
            if low.startswith(b"<!--", pos):
                j = low.find(b"-->", pos + 2)
                if j < 0:
                    return None
                pos = j + 2
            elif low.startswith(b"<meta", pos) and (d[pos + 5:pos + 6] in SP or d[pos + 5:pos + 6] == b"/"):
                pos += 5
                seen = set()
                got_pragma = False
                need_pragma = None
                charset = None   # None = null, False = failure
                while True:
                    name, value, pos = get_attribute(d, pos)
                    if name is None:
                        break
                    if name in seen:
                        continue
                    seen.add(name)
                    if name == b"http-equiv":
                        if value == b"content-type":
                            got_pragma = True
                    elif name == b"content":
                        lab = extract_from_content(value)
                        if lab is not None and charset is None:
                            enc = lookup(lab)
                            if enc:
                                charset, need_pragma = enc, True
                    elif name == b"charset":
                        enc = lookup(value)
                        charset = enc if enc else False
                        need_pragma = False
                if not (need_pragma is None or (need_pragma and not got_pragma) or not charset):
                    if charset in ("utf-16be", "utf-16le"):
                        charset = "utf-8"
                    if charset == "x-user-defined":
                        charset = "windows-1252"
                    return charset
            elif d[pos:pos + 1] == b"<" and (_alpha(d[pos + 1:pos + 2]) or (d[pos + 1:pos + 2] == b"/" and _alpha(d[pos + 2:pos + 3]))):
                pos += 1
                while True:
                    if pos >= n:
                        raise End()
                    if d[pos:pos + 1] in SP or d[pos:pos + 1] == b">":
                        break
                    pos += 1
                while True:
                    name, value, pos = get_attribute(d, pos)
                    if name is None:
                        break
            elif low.startswith(b"<!", pos) or low.startswith(b"</", pos) or low.startswith(b"<?", pos):
                j = d.find(b">", pos + 2)
                if j < 0:
                    return None
                pos = j
            pos += 1
    except End:
        return None
    return None


# ---------------------------------------------------------------------------------------------- html5lib as pinned
class _EB(object):
    """Position semantics of html5lib's EncodingBytes (position may run past the end, raising Stop)."""

    def __init__(self, value):
        self.b = value.lower()
        self.p = -1

    def __len__(self):
        return len(self.b)

    def next(self):
        self.p += 1
        if self.p >= len(self.b):
            raise End()
        return self.b[self.p:self.p + 1]

    def previous(self):
        if self.p >= len(self.b):
            raise End()
        self.p -= 1
        return self.b[self.p:self.p + 1]

    def getpos(self):
        if self.p >= len(self.b):
            raise End()
        return self.p if self.p >= 0 else None

    def setpos(self, v):
        if self.p >= len(self.b):
            raise End()
        self.p = v

    def cur(self):
        p = self.getpos()
        if p is None:
            return self.b[0:0]  # bytes[None:None+1] raises TypeError upstream; never reached in practice
        return self.b[p:p + 1]

    def skip(self, chars=SP):
        p = self.getpos()
        if p is None:
            p = 0  # upstream would fail on None < len; not reached: skip is only called after a match
        while p < len(self.b):
            c = self.b[p:p + 1]
            if c not in chars:
                self.p = p
                return c
            p += 1
        self.p = p
        return None

    def skip_until(self, chars):
        p = self.getpos()
        while p < len(self.b):
            c = self.b[p:p + 1]
            if c in chars:
                self.p = p
                return c
            p += 1
        self.p = p
        return None

    def match(self, key):
        pos = self.getpos()
        rv = self.b.startswith(key, pos)
        if rv:
            self.setpos(self.getpos() + len(key))
        return rv

    def jump_to(self, key):
        pos = self.getpos()
        i = self.b.find(key, pos if pos is not None else 0)
        if i < 0:
            raise End()
        self.p = i + len(key) - 1
        return True


def _h5_content(value):
    d = _EB(value)
    try:
        d.jump_to(b"charset")
        d.setpos(d.getpos() + 1)
        d.skip()
        if d.cur() != b"=":
            return None
        d.setpos(d.getpos() + 1)
        d.skip()
        if d.cur() in (b'"', b"'"):
            q = d.cur()
            d.setpos(d.getpos() + 1)
            old = d.getpos()
            d.jump_to(q)
            return d.b[old:d.getpos()]
        old = d.getpos()
        try:
            d.skip_until(SP)
            return d.b[old:d.getpos()]
        except End:
            return d.b[old:]
    except End:
        return None


def _h5_get_attribute(d):
    c = d.skip(SP + (b"/",))
    if c in (b">", None):
        return None
    name, value = [], []
    while True:
        if c == b"=" and name:
            break
        elif c in SP:
            c = d.skip()
            break
        elif c in (b"/", b">"):
            return b"".join(name), b""
        elif c is None:
            return None
        else:
            name.append(c)
        c = d.next()
    if c != b"=":
        d.previous()
        return b"".join(name), b""
    d.next()
    c = d.skip()
    if c in (b"'", b'"'):
        q = c
        while True:
            c = d.next()
            if c == q:
                d.next()
                return b"".join(name), b"".join(value)
            value.append(c)
    elif c == b">":
        return b"".join(name), b""
    elif c is None:
        return None
    else:
        value.append(c)
    while True:
        c = d.next()
        if c in SP or c in (b">", b"<"):
            return b"".join(name), b"".join(value)
        value.append(c)


def prescan_h5(data, lookup, window=1024):
    """html5lib's EncodingParser as it behaves on the pinned tree (listed finding prescan-deviates-from-standard)."""
    d = _EB(data[:window])
    if b"<meta" not in d.b:
        return None
    enc = [None]

    def handle_meta():
        if d.cur() not in SP:
            return True
        has_pragma = False
        pending = None
        while True:
            a = _h5_get_attribute(d)
            if a is None:
                return True
            if a[0] == b"http-equiv":
                has_pragma = a[1] == b"content-type"
                if has_pragma and pending is not None:
                    enc[0] = pending
                    return False
            elif a[0] == b"charset":
                c = lookup(a[1])
                if c is not None:
                    enc[0] = c
                    return False
            elif a[0] == b"content":
                t = _h5_content(a[1])
                if t is not None:
                    c = lookup(t)
                    if c is not None:
                        if has_pragma:
                            enc[0] = c
                            return False
                        pending = c

    def handle_other():
        return d.jump_to(b">")

    def possible_tag(end):
        if not _alpha(d.cur()):
            if end:
                d.previous()
                handle_other()
            return True
        c = d.skip_until(SP + (b">", b"<"))
        if c == b"<":
            d.previous()
        else:
            a = _h5_get_attribute(d)
            while a is not None:
                a = _h5_get_attribute(d)
        return True

    def end_tag():
        d.next()
        return possible_tag(True)
    dispatch = ((b"<!--", lambda: d.jump_to(b"-->")), (b"<meta", handle_meta), (b"</", end_tag), (b"<!", handle_other),
                (b"<?", handle_other), (b"<", lambda: possible_tag(False)))
    while True:
        try:
            d.next()
        except End:
            break
        keep = True
        try:
            d.jump_to(b"<")
        except End:
            break
        for key, fn in dispatch:
            try:
                m = d.match(key)
            except End:
                m = False
                keep = False
                break
            if m:
                try:
                    keep = fn()
                except End:
                    keep = False
                break
        if not keep:
            break
    r = enc[0]
    if r in ("utf-16be", "utf-16le"):
        r = "utf-8"
    return r
