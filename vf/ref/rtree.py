"""R-tree: WHATWG tree construction (insertion modes, foreign content, fragment case) on top of rtree_core and R-tok.

parse(text, fragment_context=None, scripting=False, switches=()) -> flat canonical tree (vf.canon format)

Named switches reproduce html5lib's known deviations (each is a listed finding of C01); without switches the model
follows the standard.  `template` is not modelled (treated as an ordinary element under switch / reported by caller).
"""
from .rtree_core import (Core, N, MARKER, HTML, MATHML, SVG, WS, FORMATTING, HEADINGS, SVG_TAGS, SVG_ATTRS, FOREIGN_ATTRS,
                         BREAKOUT, QUIRKS_PUBLIC_PREFIXES, XMLNS_XML)
from . import rtok

REPROCESS = object()
RAWTEXT_CONTEXT = ("style", "xmp", "iframe", "noembed", "noframes")


def split_chars(s):
    """('ws', run) / ('nul', run) / ('char', run) segments."""
    out = []
    i, n = 0, len(s)
    while i < n:
        c = s[i]
        if c in WS:
            k = "ws"
        elif c == "\x00":
            k = "nul"
        else:
            k = "char"
        j = i + 1
        while j < n and ((s[j] in WS) == (k == "ws")) and ((s[j] == "\x00") == (k == "nul")):
            j += 1
        out.append((k, s[i:j]))
        i = j
    return out


class RTree(Core):
    def __init__(self, text, fragment_context=None, scripting=False, switches=()):
        Core.__init__(self, scripting, switches)
        self.tok = rtok.RTok(text, "data", None, self.cdata_allowed,
                             ("cdata-nul-replaced-by-tokenizer",) if "cdata-nul-replaced-by-tokenizer" in self.sw else ())
        self.tok.want_pieces = "h5-character-token-granularity" in self.sw
        self.mode = "initial"
        self.orig_mode = None
        self.pending_table_text = []
        self.skip_lf = False
        self.h5_drop_lf = False
        self.stack_root = None
        if fragment_context is not None:
            self.fragment = True
            ctx = fragment_context
            self.context = N("el", ctx, HTML)
            if ctx in ("title", "textarea"):
                self.tok.state = "rcdata"
            elif ctx in RAWTEXT_CONTEXT:
                self.tok.state = "rawtext"
            elif ctx == "script":
                self.tok.state = "script"
            elif ctx == "noscript":
                if scripting or "fragment-noscript-always-rawtext" in self.sw:
                    self.tok.state = "rawtext"
            elif ctx == "plaintext":
                self.tok.state = "plaintext"
            root = N("el", "html", HTML)
            self.doc.append(root)
            self.stack.append(root)
            self.stack_root = root
            self.reset_mode()
            if ctx == "form" and "fragment-form-context-no-pointer" not in self.sw:
                self.form = self.context

    def cdata_allowed(self):
        n = self.adjusted_cur()
        return n is not None and n.ns != HTML

    # ------------------------------------------------------------------ driver
    def run(self):
        for t in self.tok.tokens():
            if t[0] == "chars":
                if self.tok.want_pieces:
                    for pc in t[2]:
                        if isinstance(pc, tuple):
                            self.dispatch(("char", pc[1]))   # a token html5lib types as Characters whatever it contains
                            continue
                        if pc == "\x00":
                            self.dispatch(("nul", pc))
                        elif all(c in WS for c in pc):
                            self.dispatch(("ws", pc))
                        else:
                            self.dispatch(("char", pc))
                else:
                    for seg in split_chars(t[1]):
                        self.dispatch(seg)
            else:
                self.dispatch(t)
                if t[0] == "start":
                    pass
        self.dispatch(("eof",))
        return self

    def dispatch(self, t):
        if self.skip_lf:
            self.skip_lf = False
            if t[0] == "ws" and t[1][0] == "\n":
                t = ("ws", t[1][1:])
                if not t[1]:
                    return
        guard = 0
        while True:
            guard += 1
            if guard > 200:
                raise ModelLoop("reprocess loop on %r in mode %s" % (t[:2], self.mode))
            if self.use_foreign(t):
                r = self.foreign(t)
            else:
                r = getattr(self, "m_" + self.mode)(t)
            if r is not REPROCESS:
                return

    def use_foreign(self, t):
        if not self.stack:
            return False
        n = self.adjusted_cur()
        if n.ns == HTML:
            return False
        k = t[0]
        if k == "eof":
            return False
        if self.is_mathml_text_ip(n):
            if k == "start" and t[1] not in ("mglyph", "malignmark"):
                return False
            if k in ("ws", "char", "nul"):
                return False
        if n.ns == MATHML and n.name == "annotation-xml" and k == "start" and t[1] == "svg":
            return False
        if self.is_html_ip(n) and k in ("start", "ws", "char", "nul"):
            return False
        return True

    @staticmethod
    def is_mathml_text_ip(n):
        return n.ns == MATHML and n.name in ("mi", "mo", "mn", "ms", "mtext")

    @staticmethod
    def is_html_ip(n):
        if n.ns == MATHML and n.name == "annotation-xml":
            enc = n.attr("encoding")
            return enc is not None and "".join(c.lower() if "A" <= c <= "Z" else c for c in enc) in ("text/html", "application/xhtml+xml")
        return n.ns == SVG and n.name in ("foreignObject", "desc", "title")

    # ------------------------------------------------------------------ small helpers
    def generic_text(self, t, state):
        self.insert_element(t[1], t[2])
        self.tok.state = state
        self.orig_mode = self.mode
        self.mode = "text"

    def close_p(self):
        self.implied_end_tags(exclude="p")
        self.pop_until("p")

    def ack(self, t):
        pass

    def adjust_foreign_attrs(self, attrs, ns):
        out = []
        for k, v in attrs:
            if ns == SVG and k in SVG_ATTRS:
                k = SVG_ATTRS[k]
            elif ns == MATHML and k == "definitionurl":
                k = "definitionURL"
            if k in FOREIGN_ATTRS:
                fns, ln = FOREIGN_ATTRS[k]
                k = "{%s}%s" % (fns, ln)
            elif k == "xml:base" and "foreign-attr-xml-base" in self.sw:
                k = "{%s}base" % XMLNS_XML
            out.append((k, v))
        return out

    def merge_attrs(self, node, attrs):
        have = set(k for k, v in node.attrs)
        for k, v in attrs:
            if k not in have:
                node.attrs.append((k, v))
                have.add(k)

    # ------------------------------------------------------------------ initial / before html / before head
    def m_initial(self, t):
        k = t[0]
        if k == "ws":
            return
        if k == "comment":
            self.insert_comment(t[1], (self.doc, None))
            return
        if k == "doctype":
            name, pub, sysid, fq = t[1], t[2], t[3], t[4]
            d = N("doctype", name, data=(pub, sysid))
            self.doc.append(d)
            self.quirks = self.quirks_mode(name, pub, sysid, fq)
            self.mode = "before_html"
            return
        self.quirks = "quirks"
        self.mode = "before_html"
        return REPROCESS

    def quirks_mode(self, name, pub, sysid, fq):
        p = pub.lower() if pub is not None else None
        s = sysid.lower() if sysid is not None else None
        if fq or name != "html":
            return "quirks"
        if p in ("-//w3o//dtd w3 html strict 3.0//en//", "-/w3c/dtd html 4.0 transitional/en", "html"):
            return "quirks"
        if s == "http://www.ibm.com/data/dtd/v11/ibmxhtml1-transitional.dtd":
            return "quirks"
        if p is not None and any(p.startswith(x) for x in QUIRKS_PUBLIC_PREFIXES):
            return "quirks"
        if sysid is None and p is not None and (p.startswith("-//w3c//dtd html 4.01 frameset//") or p.startswith("-//w3c//dtd html 4.01 transitional//")):
            return "quirks"
        if p is not None and (p.startswith("-//w3c//dtd xhtml 1.0 frameset//") or p.startswith("-//w3c//dtd xhtml 1.0 transitional//")):
            return "limited"
        if sysid is not None and p is not None and (p.startswith("-//w3c//dtd html 4.01 frameset//") or p.startswith("-//w3c//dtd html 4.01 transitional//")):
            return "limited"
        return "no"

    def m_before_html(self, t):
        k = t[0]
        if k == "doctype":
            return
        if k == "comment":
            self.insert_comment(t[1], (self.doc, None))
            return
        if k == "ws":
            return
        if k == "start" and t[1] == "html":
            el = self.create_element("html", t[2])
            self.doc.append(el)
            self.stack.append(el)
            self.mode = "before_head"
            return
        if k == "end" and t[1] not in ("head", "body", "html", "br"):
            return
        el = self.create_element("html", [])
        self.doc.append(el)
        self.stack.append(el)
        self.mode = "before_head"
        return REPROCESS

    def m_before_head(self, t):
        k = t[0]
        if k == "ws":
            return
        if k == "comment":
            self.insert_comment(t[1])
            return
        if k == "doctype":
            return
        if k == "start" and t[1] == "html":
            return self.m_in_body(t)
        if k == "start" and t[1] == "head":
            self.head = self.insert_element("head", t[2])
            self.mode = "in_head"
            return
        if k == "end" and t[1] not in ("head", "body", "html", "br"):
            return
        self.head = self.insert_element("head", [])
        self.mode = "in_head"
        return REPROCESS

    # ------------------------------------------------------------------ in head
    def m_in_head(self, t):
        k = t[0]
        if k == "ws":
            self.insert_text(t[1])
            return
        if k == "comment":
            self.insert_comment(t[1])
            return
        if k == "doctype":
            return
        if k == "start":
            nm = t[1]
            if nm == "html":
                return self.m_in_body(t)
            if nm in ("base", "basefont", "bgsound", "link") or (nm == "command" and "command-is-void-in-head" in self.sw):
                self.insert_element(nm, t[2])
                self.stack.pop()
                return
            if nm == "meta":
                self.insert_element(nm, t[2])
                self.stack.pop()
                return
            if nm == "title":
                return self.generic_text(t, "rcdata")
            if (nm == "noscript" and self.scripting) or nm in ("noframes", "style"):
                return self.generic_text(t, "rawtext")
            if nm == "noscript":
                self.insert_element(nm, t[2])
                self.mode = "in_head_noscript"
                return
            if nm == "script":
                self.insert_element(nm, t[2])
                self.tok.state = "script"
                self.orig_mode = self.mode
                self.mode = "text"
                return
            if nm == "head":
                return
            if nm == "template" and "template-unsupported" not in self.sw:
                raise NotModelled("template")
        if k == "end":
            nm = t[1]
            if nm == "head":
                self.stack.pop()
                self.mode = "after_head"
                return
            if nm == "template" and "template-unsupported" not in self.sw:
                raise NotModelled("template")
            if nm not in ("body", "html", "br"):
                return
        self.stack.pop()
        self.mode = "after_head"
        return REPROCESS

    def m_in_head_noscript(self, t):
        k = t[0]
        if k == "doctype":
            return
        if k == "start" and t[1] == "html":
            return self.m_in_body(t)
        if k == "end" and t[1] == "noscript":
            self.stack.pop()
            self.mode = "in_head"
            return
        if k in ("ws", "comment") or (k == "start" and t[1] in ("basefont", "bgsound", "link", "meta", "noframes", "style")):
            return self.m_in_head(t)
        if k == "start" and t[1] in ("head", "noscript"):
            return
        if k == "end" and t[1] != "br":
            return
        self.stack.pop()
        self.mode = "in_head"
        return REPROCESS

    def m_after_head(self, t):
        k = t[0]
        if k == "ws":
            self.insert_text(t[1])
            return
        if k == "comment":
            self.insert_comment(t[1])
            return
        if k == "doctype":
            return
        if k == "start":
            nm = t[1]
            if nm == "html":
                return self.m_in_body(t)
            if nm == "body":
                self.insert_element("body", t[2])
                self.frameset_ok = False
                self.mode = "in_body"
                return
            if nm == "frameset":
                self.insert_element("frameset", t[2])
                self.mode = "in_frameset"
                return
            if nm == "template" and "template-unsupported" not in self.sw:
                raise NotModelled("template")
            if nm in ("base", "basefont", "bgsound", "link", "meta", "noframes", "script", "style", "title"):
                self.stack.append(self.head)
                r = self.m_in_head(t)
                if self.head in self.stack:
                    self.stack.remove(self.head)
                return r
            if nm == "head":
                return
        if k == "end":
            if t[1] == "template" and "template-unsupported" not in self.sw:
                raise NotModelled("template")
            if t[1] not in ("body", "html", "br"):
                return
        self.insert_element("body", [])
        self.mode = "in_body"
        return REPROCESS

    # ------------------------------------------------------------------ text
    def m_text(self, t):
        k = t[0]
        if k in ("ws", "char", "nul"):
            self.insert_text(t[1])
            return
        if k == "eof":
            self.stack.pop()
            self.mode = self.orig_mode
            return REPROCESS
        if k == "end":
            self.stack.pop()
            self.mode = self.orig_mode
            return
        return

    # ------------------------------------------------------------------ EOF / stop
    def stop(self):
        pass


class NotModelled(Exception):
    pass


class ModelLoop(Exception):
    pass


from . import rtree_body  # noqa: E402  (adds in-body, table, select, frameset, after-* modes and foreign content)
rtree_body.install(RTree, REPROCESS, NotModelled)


def parse(text, fragment_context=None, scripting=False, switches=()):
    p = RTree(text, fragment_context, scripting, switches)
    p.run()
    return p.flat()
