"""R-url and R-css: independent gates for the sanitizer properties (C09, C10).

R-url: does the string start with a scheme as the WHATWG URL parser sees it?
R-css: declaration-level scan of a style attribute value per CSS Syntax (strings, parentheses, escapes, url tokens).
"""
import re

C0_SPACE = "".join(chr(c) for c in range(0x21))
ALPHA = "abcdefghijklmnopqrstuvwxyzABCDEFGHIJKLMNOPQRSTUVWXYZ"
SCHEME_REST = ALPHA + "0123456789+-."


def url_scheme(value):
    """Scheme (lower case) the WHATWG URL parser extracts, or None (relative reference / no scheme).
    Steps: strip leading and trailing C0 control or space; remove all ASCII tab or newline; scheme start state
    needs an ASCII alpha, scheme state accepts ASCII alphanumeric, '+', '-', '.', and ends at ':'."""
    s = value.strip(C0_SPACE)
    s = s.replace("\t", "").replace("\n", "").replace("\r", "")
    if not s or s[0] not in ALPHA:
        return None
    i = 1
    n = len(s)
    while i < n and s[i] in SCHEME_REST:
        i += 1
    if i < n and s[i] == ":":
        return s[:i].lower()
    return None


def data_mime_essence(value):
    """For a data: URL value: the MIME type essence the data: URL processor derives ('text/plain' when the type is
    absent or unparsable)."""
    s = value.strip(C0_SPACE).replace("\t", "").replace("\n", "").replace("\r", "")
    i = s.find(":")
    body = s[i + 1:]
    j = body.find(",")
    if j < 0:
        return None  # not a valid data: URL at all: network error, nothing is loaded
    mt = body[:j].strip(" \t\n\x0c\r")
    # remove a trailing ;base64 (with optional spaces)
    m = re.match(r"^(.*);\s*base64$", mt, re.I | re.S)
    if m:
        mt = m.group(1)
    if mt.startswith(";"):
        mt = "text/plain" + mt
    ess = mt.split(";", 1)[0].strip(" \t\n\x0c\r").lower()
    if not re.match(r"^[!#$%&'*+\-.^_`|~0-9a-z]+/[!#$%&'*+\-.^_`|~0-9a-z]+$", ess):
        return "text/plain"
    return ess


# ------------------------------------------------------------------ CSS
def css_declarations(style):
    """Split a style attribute value into (name, value) declarations the way CSS Syntax does at the top level:
    ';' separates declarations unless inside a string, parentheses/brackets/braces or a url( token.
    Returns (declarations, flags) where flags is a set of findings: 'url', 'bad-url', 'escape', 'expression',
    'unterminated-string', 'at-rule', 'comment'."""
    flags = set()
    decls = []
    cur = []
    depth = 0
    i = 0
    n = len(style)
    low = style.lower()
    while i < n:
        c = style[i]
        if c == "\\":
            flags.add("escape")
            cur.append(style[i:i + 2])
            i += 2
            continue
        if c == "/" and style[i:i + 2] == "/*":
            flags.add("comment")
            j = style.find("*/", i + 2)
            i = n if j < 0 else j + 2
            continue
        if c in "\"'":
            j = i + 1
            while j < n and style[j] != c and style[j] != "\n":
                if style[j] == "\\":
                    flags.add("escape")
                    j += 1
                j += 1
            if j >= n or style[j] != c:
                flags.add("unterminated-string")
            cur.append(style[i:j + 1])
            i = j + 1
            continue
        if low.startswith("url(", i) and (i == 0 or not (low[i - 1].isalnum() or low[i - 1] in "-_")):
            flags.add("url")
            j = style.find(")", i)
            cur.append(style[i:(n if j < 0 else j + 1)])
            i = n if j < 0 else j + 1
            continue
        if low.startswith("expression(", i):
            flags.add("expression")
        if c == "@" and depth == 0 and not "".join(cur).strip():
            flags.add("at-rule")
        if c in "([{":
            depth += 1
        elif c in ")]}":
            depth = max(0, depth - 1)
        if c == ";" and depth == 0:
            decls.append("".join(cur))
            cur = []
        else:
            cur.append(c)
        i += 1
    if "".join(cur).strip():
        decls.append("".join(cur))
    out = []
    for d in decls:
        if not d.strip():
            continue
        if ":" not in d:
            out.append((d.strip(), None))
        else:
            nm, val = d.split(":", 1)
            out.append((nm.strip(), val.strip()))
    return out, flags


SHORTHAND_PREFIXES = ("background", "border", "margin", "padding")
_NUMERIC_WORD = re.compile(r"^(#[0-9a-fA-F]+|rgb\([0-9%,]*\)?|[0-9.]+(cm|em|ex|in|mm|pc|pt|px|%|,|\))?|[0-9.]*)$")


def css_problem(style, allowed_props, allowed_keywords, allowed_svg_props):
    """None if the style value keeps only allowed properties/keywords and can load nothing; else a reason."""
    decls, flags = css_declarations(style)
    for f in ("url", "escape", "expression", "at-rule", "unterminated-string"):
        if f in flags:
            return "style contains %s" % f
    for nm, val in decls:
        if val is None:
            return "declaration without ':' (%r)" % nm[:30]
        l = nm.lower()
        if l in allowed_props or l in allowed_svg_props:
            continue
        if l.split("-")[0] in SHORTHAND_PREFIXES:
            for w in val.split():
                if w not in allowed_keywords and not _NUMERIC_WORD.match(w):
                    return "shorthand %s has non-allowed keyword %r" % (l, w[:30])
            continue
        return "property %r not allowed" % nm[:40]
    return None
