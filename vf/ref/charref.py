"""R-charref: character reference decoding per the HTML standard, written from the standard's step list.
Tables come from Python's html.entities (html5) and from the cp1252 codec, never from html5lib."""
from html.entities import html5 as _HTML5

# name (without '&', with or without trailing ';') -> replacement
NAMED = dict(_HTML5)
MAXLEN = max(len(k) for k in NAMED)
_PREFIXES = set()
for _k in NAMED:
    for _i in range(1, len(_k) + 1):
        _PREFIXES.add(_k[:_i])

# numeric replacement table of the standard: 0x80-0x9F as windows-1252, where defined
C1 = {}
for _b in range(0x80, 0xA0):
    try:
        _ch = bytes([_b]).decode("cp1252")
        C1[_b] = _ch
    except UnicodeDecodeError:
        pass  # 0x81 0x8D 0x8F 0x90 0x9D stay as the C1 control (parse error only)

ALNUM = "abcdefghijklmnopqrstuvwxyzABCDEFGHIJKLMNOPQRSTUVWXYZ0123456789"
DIGITS = "0123456789"
HEXDIGITS = "0123456789abcdefABCDEF"


def numeric_value(v):
    if v == 0 or v > 0x10FFFF or 0xD800 <= v <= 0xDFFF:
        return "\ufffd"
    if v in C1:
        return C1[v]
    return chr(v)


def consume(s, i, in_attr):
    """s[i] == '&'.  Returns (decoded_text, next_index) for the reference starting at i."""
    n = len(s)
    j = i + 1
    if j >= n:
        return "&", j
    c = s[j]
    if c == "#":
        k = j + 1
        hexa = False
        if k < n and s[k] in "xX":
            hexa = True
            k += 1
        st = k
        allowed = HEXDIGITS if hexa else DIGITS
        while k < n and s[k] in allowed:
            k += 1
        if k == st:
            # no digits: the characters consumed so far are flushed as they are
            return s[i:st], st
        # the standard's accumulation (multiply, add), saturated: beyond U+10FFFF the exact value is irrelevant
        base = 16 if hexa else 10
        v = 0
        for ch in s[st:k]:
            v = v * base + int(ch, 16)
            if v > 0x10FFFF:
                v = 0x110000
        if k < n and s[k] == ";":
            k += 1
        return numeric_value(v), k
    if c in ALNUM:
        # longest match against the table
        k = j
        best = None
        while k < n and k - j < MAXLEN and s[j:k + 1] in _PREFIXES:
            k += 1
            if s[j:k] in NAMED:
                best = k
        if best is None:
            return "&", j
        name = s[j:best]
        if in_attr and name[-1] != ";" and best < n and (s[best] == "=" or s[best] in ALNUM):
            # historical exception: left as text (all consumed characters are flushed)
            return s[i:best], best
        return NAMED[name], best
    return "&", j


def decode(s, in_attr=False):
    """Decode every character reference of s (a run of text in data/RCDATA, or an attribute value)."""
    out = []
    i = 0
    n = len(s)
    while i < n:
        c = s[i]
        if c == "&":
            t, i = consume(s, i, in_attr)
            out.append(t)
        else:
            out.append(c)
            i += 1
    return "".join(out)
