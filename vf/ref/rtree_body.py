"""R-tree, part 2: "in body" and everything after it.  Functions are attached to RTree by install()."""
from .rtree_core import (N, MARKER, HTML, MATHML, SVG, WS, FORMATTING, HEADINGS, SVG_TAGS, BREAKOUT)

CLOSE_P_STARTS = ("address", "article", "aside", "blockquote", "center", "details", "dialog", "dir", "div", "dl", "fieldset", "figcaption",
                  "figure", "footer", "header", "hgroup", "main", "menu", "nav", "ol", "p", "section", "summary", "ul")
BLOCK_ENDS = ("address", "article", "aside", "blockquote", "button", "center", "details", "dialog", "dir", "div", "dl", "fieldset",
              "figcaption", "figure", "footer", "header", "hgroup", "listing", "main", "menu", "nav", "ol", "pre", "section", "summary", "ul")
TABLE_PARTS = ("table", "tbody", "tfoot", "thead", "tr")


def install(RTree, REPROCESS, NotModelled):

    # ================================================================== in body
    def m_in_body(self, t):
        k = t[0]
        if k == "nul":
            return
        if k == "ws":
            data = t[1]
            if self.h5_drop_lf:
                self.h5_drop_lf = False
                c = self.cur
                if data[0] == "\n" and c.name in ("pre", "listing", "textarea") and not c.children:
                    data = data[1:]
                    if not data:
                        return
            self.reconstruct_afe()
            self.insert_text(data)
            return
        if k == "char":
            self.reconstruct_afe()
            self.insert_text(t[1])
            self.frameset_ok = False
            return
        if k == "comment":
            self.insert_comment(t[1])
            return
        if k == "doctype":
            return
        if k == "eof":
            return self.stop()
        if k == "start":
            return self.body_start(t)
        return self.body_end(t)

    def body_start(self, t):
        nm, attrs = t[1], t[2]
        sw = self.sw
        if nm == "html":
            self.merge_attrs(self.stack[0], attrs)
            return
        if nm in ("base", "basefont", "bgsound", "link", "meta", "noframes", "script", "style", "template", "title") or \
                (nm == "command" and "command-is-void-in-head" in sw):
            if nm == "template" and "template-unsupported" not in sw:
                raise NotModelled("template")
            if nm == "template":
                return body_start_other(self, t)
            return self.m_in_head(t)
        if nm == "body":
            if len(self.stack) < 2 or not self.stack[1].is_html("body"):
                return
            self.frameset_ok = False
            self.merge_attrs(self.stack[1], attrs)
            return
        if nm == "frameset":
            if len(self.stack) < 2 or not self.stack[1].is_html("body"):
                return
            if not self.frameset_ok:
                return
            body = self.stack[1]
            if body.parent is not None:
                body.parent.remove(body)
            del self.stack[1:]
            self.insert_element("frameset", attrs)
            self.mode = "in_frameset"
            return
        closers = CLOSE_P_STARTS
        if "dialog-does-not-close-p" in sw:
            closers = tuple(x for x in closers if x not in ("dialog", "main", "figcaption", "hgroup", "summary")) if "p-closers-html5lib" in sw else \
                tuple(x for x in closers if x != "dialog")
        if "p-closers-html5lib" in sw:
            closers = ("address", "article", "aside", "blockquote", "center", "details", "dir", "div", "dl", "fieldset", "figcaption", "figure",
                       "footer", "header", "hgroup", "main", "menu", "nav", "ol", "p", "section", "summary", "ul")
        if nm in closers:
            if self.in_button_scope("p"):
                self.close_p()
            self.insert_element(nm, attrs)
            return
        if nm in HEADINGS:
            if self.in_button_scope("p"):
                self.close_p()
            if self.cur.is_html(*HEADINGS):
                self.stack.pop()
            self.insert_element(nm, attrs)
            return
        if nm in ("pre", "listing"):
            if self.in_button_scope("p"):
                self.close_p()
            self.insert_element(nm, attrs)
            if "newline-drop-tied-to-in-body-space-handler" in sw:
                self.h5_drop_lf = True
            else:
                self.skip_lf = True
            self.frameset_ok = False
            return
        if nm == "form":
            if self.form is not None:
                return
            if self.in_button_scope("p"):
                self.close_p()
            self.form = self.insert_element(nm, attrs)
            return
        if nm == "li":
            self.frameset_ok = False
            closed = False
            for node in reversed(self.stack):
                if node.is_html("li"):
                    if "special-set-html5lib" in sw and not self.in_list_scope("li"):
                        break  # pinned behaviour: the implied </li> goes through the end-tag handler, which needs list scope
                    self.implied_end_tags(exclude="li")
                    self.pop_until("li")
                    closed = True
                    break
                if self.special(node) and not node.is_html("address", "div", "p"):
                    break
            if self.in_button_scope("p"):
                self.close_p()
                closed = True
            if closed and self.foster and "implied-end-tag-in-table-resets-foster-parenting" in sw:
                self.foster = False  # pinned behaviour: the implied end tag went through InTablePhase and reset the flag
            self.insert_element(nm, attrs)
            return
        if nm in ("dd", "dt"):
            self.frameset_ok = False
            closed = False
            for node in reversed(self.stack):
                if node.is_html("dd", "dt"):
                    if "special-set-html5lib" in sw and not self.in_scope(node.name):
                        break
                    self.implied_end_tags(exclude=node.name)
                    self.pop_until(node.name)
                    closed = True
                    break
                if self.special(node) and not node.is_html("address", "div", "p"):
                    break
            if self.in_button_scope("p"):
                self.close_p()
                closed = True
            if closed and self.foster and "implied-end-tag-in-table-resets-foster-parenting" in sw:
                self.foster = False
            self.insert_element(nm, attrs)
            return
        if nm == "plaintext":
            if self.in_button_scope("p"):
                self.close_p()
            self.insert_element(nm, attrs)
            self.tok.state = "plaintext"
            return
        if nm == "button":
            if self.in_scope("button"):
                self.implied_end_tags()
                self.pop_until("button")
                if self.foster and "reprocess-request-dropped-in-table-voodoo" in sw:
                    return  # pinned behaviour: InBody asks for the token to be reprocessed, InTablePhase drops the request
            self.reconstruct_afe()
            self.insert_element(nm, attrs)
            self.frameset_ok = False
            return
        if nm == "a":
            el = self.afe_element_after_marker("a")
            if el is not None:
                self.adoption_agency("a")
                if el in self.afe:
                    self.afe.remove(el)
                if el in self.stack:
                    self.stack.remove(el)
            self.reconstruct_afe()
            self.push_afe(self.insert_element(nm, attrs))
            return
        if nm in ("b", "big", "code", "em", "font", "i", "s", "small", "strike", "strong", "tt", "u"):
            self.reconstruct_afe()
            self.push_afe(self.insert_element(nm, attrs))
            return
        if nm == "nobr":
            self.reconstruct_afe()
            if self.in_scope("nobr"):
                self.adoption_agency("nobr")
                self.reconstruct_afe()
            self.push_afe(self.insert_element(nm, attrs))
            return
        if nm in ("applet", "marquee", "object"):
            self.reconstruct_afe()
            self.insert_element(nm, attrs)
            self.afe.append(MARKER)
            self.frameset_ok = False
            return
        if nm == "table":
            if self.quirks != "quirks" and self.in_button_scope("p"):
                self.close_p()
            self.insert_element(nm, attrs)
            self.frameset_ok = False
            self.mode = "in_table"
            return
        if nm in ("area", "br", "embed", "img", "keygen", "wbr"):
            self.reconstruct_afe()
            self.insert_element(nm, attrs)
            self.stack.pop()
            self.frameset_ok = False
            return
        if nm == "input":
            self.reconstruct_afe()
            self.insert_element(nm, attrs)
            self.stack.pop()
            ty = dict(attrs).get("type")
            if ty is None or "".join(c.lower() if "A" <= c <= "Z" else c for c in ty) != "hidden":
                self.frameset_ok = False
            return
        if nm in ("param", "source", "track"):
            self.insert_element(nm, attrs)
            self.stack.pop()
            return
        if nm == "hr":
            if self.in_button_scope("p"):
                self.close_p()
            self.insert_element(nm, attrs)
            self.stack.pop()
            self.frameset_ok = False
            return
        if nm == "image":
            return self.body_start(("start", "img", attrs, t[3]))
        if nm == "isindex" and "isindex-expansion" in sw:
            return isindex(self, t)
        if nm == "textarea":
            self.insert_element(nm, attrs)
            if "newline-drop-tied-to-in-body-space-handler" in sw:
                self.h5_drop_lf = True
            else:
                self.skip_lf = True
            self.tok.state = "rcdata"
            self.frameset_ok = False
            if "textarea-text-handled-in-body-mode" in sw:
                return  # pinned behaviour: the insertion mode is not switched to "text"
            self.orig_mode = self.mode
            self.mode = "text"
            return
        if nm == "xmp":
            if self.in_button_scope("p"):
                self.close_p()
            self.reconstruct_afe()
            self.frameset_ok = False
            return self.generic_text(t, "rawtext")
        if nm == "iframe":
            self.frameset_ok = False
            return self.generic_text(t, "rawtext")
        if nm == "noembed" or (nm == "noscript" and self.scripting):
            return self.generic_text(t, "rawtext")
        if nm == "select":
            self.reconstruct_afe()
            self.insert_element(nm, attrs)
            self.frameset_ok = False
            if self.mode in ("in_table", "in_caption", "in_table_body", "in_row", "in_cell"):
                self.mode = "in_select_in_table"
            else:
                self.mode = "in_select"
            return
        if nm in ("optgroup", "option"):
            if self.cur.is_html("option"):
                self.stack.pop()
                if self.foster and "implied-end-tag-in-table-resets-foster-parenting" in sw:
                    self.foster = False
            self.reconstruct_afe()
            self.insert_element(nm, attrs)
            return
        if nm in ("rb", "rtc") and "ruby-no-rb-rtc" not in sw:
            if self.in_scope("ruby"):
                self.implied_end_tags()
            self.insert_element(nm, attrs)
            return
        if nm in ("rp", "rt"):
            if self.in_scope("ruby"):
                if "ruby-no-rb-rtc" in sw:
                    self.implied_end_tags()
                else:
                    self.implied_end_tags(exclude="rtc")
            self.insert_element(nm, attrs)
            return
        if nm == "math" or nm == "svg":
            self.reconstruct_afe()
            ns = MATHML if nm == "math" else SVG
            self.insert_foreign(nm, self.adjust_foreign_attrs(attrs, ns), ns)
            if t[3]:
                self.stack.pop()
            return
        if nm in ("caption", "col", "colgroup", "frame", "head", "tbody", "td", "tfoot", "th", "thead", "tr"):
            return
        return body_start_other(self, t)

    def body_start_other(self, t):
        self.reconstruct_afe()
        self.insert_element(t[1], t[2])

    def isindex(self, t):
        # html5lib 1.1 still implements the pre-2016 isindex expansion (switch isindex-expansion)
        attrs = dict(t[2])
        if self.form is not None:
            return
        form_attrs = []
        if "action" in attrs:
            form_attrs.append(("action", attrs["action"]))
        self.body_start(("start", "form", tuple(form_attrs), False))
        self.body_start(("start", "hr", (), False))
        self.body_start(("start", "label", (), False))
        prompt = attrs.get("prompt", "This is a searchable index. Enter search keywords: ")
        for seg in _split(prompt):
            self.m_in_body(seg)
        ia = [(k, ("isindex" if k == "name" else v)) for k, v in t[2] if k not in ("action", "prompt")]
        if "name" not in attrs:
            ia.append(("name", "isindex"))
        self.body_start(("start", "input", tuple(ia), False))
        self.body_end(("end", "label"))
        self.body_start(("start", "hr", (), False))
        self.body_end(("end", "form"))

    def _split(s):
        from .rtree import split_chars
        return split_chars(s)

    def body_end(self, t):
        nm = t[1]
        sw = self.sw
        if nm == "template":
            if "template-unsupported" not in sw:
                raise NotModelled("template")
            return self.any_other_end_tag(nm)
        if nm == "body":
            if not self.in_scope("body"):
                return
            self.mode = "after_body"
            return
        if nm == "html":
            if not self.in_scope("body"):
                return
            self.mode = "after_body"
            return REPROCESS
        ends = BLOCK_ENDS
        if "dialog-does-not-close-p" in sw or "p-closers-html5lib" in sw:
            ends = BLOCK_ENDS
        if nm in ends:
            if nm == "pre":
                self.h5_drop_lf = False
            if not self.in_scope(nm):
                return
            self.implied_end_tags()
            self.pop_until(nm)
            return
        if nm == "form":
            node = self.form
            self.form = None
            if node is None or not self.node_in_scope(node):
                return
            self.implied_end_tags()
            self.stack.remove(node)
            return
        if nm == "p":
            if not self.in_button_scope("p"):
                self.insert_element("p", [])
            self.close_p()
            return
        if nm == "li":
            if not self.in_list_scope("li"):
                return
            self.implied_end_tags(exclude="li")
            self.pop_until("li")
            return
        if nm in ("dd", "dt"):
            if not self.in_scope(nm):
                return
            self.implied_end_tags(exclude=nm)
            self.pop_until(nm)
            return
        if nm in HEADINGS:
            if not self.in_scope(HEADINGS):
                return
            self.implied_end_tags()
            self.pop_until(*HEADINGS)
            return
        if nm in FORMATTING:
            return self.adoption_agency(nm)
        if nm in ("applet", "marquee", "object"):
            if not self.in_scope(nm):
                return
            self.implied_end_tags()
            self.pop_until(nm)
            self.clear_afe_to_marker()
            return
        if nm == "br":
            self.reconstruct_afe()
            self.insert_element("br", [])
            self.stack.pop()
            self.frameset_ok = False
            return
        return self.any_other_end_tag(nm)

    # ================================================================== tables
    def clear_to(self, *names):
        stop = ("html",) if "template-unsupported" in self.sw else ("html", "template")
        while not (self.cur.is_html(*names) or self.cur.is_html(*stop)):
            self.stack.pop()

    def m_in_table(self, t):
        k = t[0]
        if k in ("ws", "char", "nul") and (self.cur.is_html(*TABLE_PARTS) or "table-text-regardless-of-current-node" in self.sw):
            self.pending_table_text = []
            self.orig_mode_tt = self.mode
            self.mode = "in_table_text"
            return REPROCESS
        if k == "comment":
            self.insert_comment(t[1])
            return
        if k == "doctype":
            return
        if k == "start":
            nm, attrs = t[1], t[2]
            if nm == "caption":
                clear_to(self, "table")
                self.afe.append(MARKER)
                self.insert_element(nm, attrs)
                self.mode = "in_caption"
                return
            if nm == "colgroup":
                clear_to(self, "table")
                self.insert_element(nm, attrs)
                self.mode = "in_column_group"
                return
            if nm == "col":
                clear_to(self, "table")
                self.insert_element("colgroup", [])
                self.mode = "in_column_group"
                return REPROCESS
            if nm in ("tbody", "tfoot", "thead"):
                clear_to(self, "table")
                self.insert_element(nm, attrs)
                self.mode = "in_table_body"
                return
            if nm in ("td", "th", "tr"):
                clear_to(self, "table")
                self.insert_element("tbody", [])
                self.mode = "in_table_body"
                return REPROCESS
            if nm == "table":
                if self.fragment and "nested-table-start-not-reprocessed-in-fragment" in self.sw:
                    # pinned behaviour: the implied </table> is handed to the *current* phase, whose request to
                    # reprocess it is dropped, and in the fragment case the <table> token itself is not reprocessed
                    if self.mode == "in_table_body":
                        if self.in_table_scope(("tbody", "thead", "tfoot")):
                            clear_to(self, "tbody", "tfoot", "thead")
                            self.stack.pop()
                            self.mode = "in_table"
                        return
                    if self.mode == "in_row":
                        if self.in_table_scope("tr"):
                            clear_to(self, "tr")
                            self.stack.pop()
                            self.mode = "in_table_body"
                        return
                    if self.in_table_scope("table"):
                        self.pop_until("table")
                        self.reset_mode()
                    return
                if not self.in_table_scope("table"):
                    return
                self.pop_until("table")
                self.reset_mode()
                return REPROCESS
            if nm in ("style", "script", "template"):
                if nm == "template" and "template-unsupported" not in self.sw:
                    raise NotModelled("template")
                if nm != "template":
                    return self.m_in_head(t)
            if nm == "input":
                ty = dict(attrs).get("type")
                if ty is not None and "".join(c.lower() if "A" <= c <= "Z" else c for c in ty) == "hidden":
                    self.insert_element(nm, attrs)
                    self.stack.pop()
                    return
            if nm == "form":
                if self.form is not None or (self.stack_has("template") and "template-unsupported" not in self.sw):
                    return
                self.form = self.insert_element(nm, attrs)
                self.stack.pop()
                return
        if k == "end":
            nm = t[1]
            if nm == "table":
                if not self.in_table_scope("table"):
                    return
                self.pop_until("table")
                self.reset_mode()
                return
            if nm in ("body", "caption", "col", "colgroup", "html", "tbody", "td", "tfoot", "th", "thead", "tr"):
                return
            if nm == "template" and "template-unsupported" not in self.sw:
                raise NotModelled("template")
        if k == "eof":
            return self.m_in_body(t)
        # anything else: foster parenting
        self.foster = True
        try:
            return self.m_in_body(t)
        finally:
            self.foster = False

    def m_in_table_text(self, t):
        k = t[0]
        if k == "nul":
            return
        if k in ("ws", "char"):
            self.pending_table_text.append(t)
            return
        if k == "doctype" and "table-text-not-flushed-by-doctype" in self.sw:
            return  # pinned behaviour: the doctype is dropped without leaving "in table text"
        flush_table_text(self)
        return REPROCESS

    def flush_table_text(self):
        pend = self.pending_table_text
        self.pending_table_text = []
        if any(p[0] == "char" for p in pend):
            self.foster = True
            try:
                if "table-text-regardless-of-current-node" in self.sw:
                    # pinned behaviour: one character token with all the pending text
                    self.m_in_body(("char", "".join(p[1] for p in pend)))
                else:
                    for p in pend:
                        self.m_in_body(p)
            finally:
                self.foster = False
        else:
            for p in pend:
                self.insert_text(p[1])
        self.mode = self.orig_mode_tt

    def m_in_caption(self, t):
        k = t[0]
        if k == "end" and t[1] == "caption":
            if not self.in_table_scope("caption"):
                return
            self.implied_end_tags()
            self.pop_until("caption")
            self.clear_afe_to_marker()
            self.mode = "in_table"
            return
        if (k == "start" and t[1] in ("caption", "col", "colgroup", "tbody", "td", "tfoot", "th", "thead", "tr")) or (k == "end" and t[1] == "table"):
            if not self.in_table_scope("caption"):
                return
            self.implied_end_tags()
            self.pop_until("caption")
            self.clear_afe_to_marker()
            self.mode = "in_table"
            return REPROCESS
        if k == "end" and t[1] in ("body", "col", "colgroup", "html", "tbody", "td", "tfoot", "th", "thead", "tr"):
            return
        if k == "ws" and "cell-caption-space-not-in-body-rules" in self.sw:
            self.insert_text(t[1])
            return
        return self.m_in_body(t)

    def m_in_column_group(self, t):
        k = t[0]
        if k == "ws":
            self.insert_text(t[1])
            return
        if k == "comment":
            self.insert_comment(t[1])
            return
        if k == "doctype":
            return
        if k == "start" and t[1] == "html":
            return self.m_in_body(t)
        if k == "start" and t[1] == "col":
            self.insert_element("col", t[2])
            self.stack.pop()
            return
        if k == "end" and t[1] == "colgroup":
            if not self.cur.is_html("colgroup"):
                return
            self.stack.pop()
            self.mode = "in_table"
            return
        if k == "end" and t[1] == "col":
            return
        if (k in ("start", "end")) and t[1] == "template":
            if "template-unsupported" not in self.sw:
                raise NotModelled("template")
        if k == "eof":
            return self.m_in_body(t)
        if not self.cur.is_html("colgroup"):
            return
        self.stack.pop()
        self.mode = "in_table"
        return REPROCESS

    def m_in_table_body(self, t):
        k = t[0]
        if k == "start" and t[1] == "tr":
            clear_to(self, "tbody", "tfoot", "thead")
            self.insert_element("tr", t[2])
            self.mode = "in_row"
            return
        if k == "start" and t[1] in ("th", "td"):
            clear_to(self, "tbody", "tfoot", "thead")
            self.insert_element("tr", [])
            self.mode = "in_row"
            return REPROCESS
        if k == "end" and t[1] in ("tbody", "tfoot", "thead"):
            if not self.in_table_scope(t[1]):
                return
            clear_to(self, "tbody", "tfoot", "thead")
            self.stack.pop()
            self.mode = "in_table"
            return
        if (k == "start" and t[1] in ("caption", "col", "colgroup", "tbody", "tfoot", "thead")) or (k == "end" and t[1] == "table"):
            if not self.in_table_scope(("tbody", "thead", "tfoot")):
                return
            clear_to(self, "tbody", "tfoot", "thead")
            self.stack.pop()
            self.mode = "in_table"
            return REPROCESS
        if k == "end" and t[1] in ("body", "caption", "col", "colgroup", "html", "td", "th", "tr"):
            return
        return self.m_in_table(t)

    def m_in_row(self, t):
        k = t[0]
        if k == "start" and t[1] in ("th", "td"):
            clear_to(self, "tr")
            self.insert_element(t[1], t[2])
            self.mode = "in_cell"
            self.afe.append(MARKER)
            return
        if k == "end" and t[1] == "tr":
            if not self.in_table_scope("tr"):
                return
            clear_to(self, "tr")
            self.stack.pop()
            self.mode = "in_table_body"
            return
        if (k == "start" and t[1] in ("caption", "col", "colgroup", "tbody", "tfoot", "thead", "tr")) or (k == "end" and t[1] == "table"):
            if not self.in_table_scope("tr"):
                return
            clear_to(self, "tr")
            self.stack.pop()
            self.mode = "in_table_body"
            return REPROCESS
        if k == "end" and t[1] in ("tbody", "tfoot", "thead"):
            if not self.in_table_scope(t[1]):
                return
            if not self.in_table_scope("tr"):
                return
            clear_to(self, "tr")
            self.stack.pop()
            self.mode = "in_table_body"
            return REPROCESS
        if k == "end" and t[1] in ("body", "caption", "col", "colgroup", "html", "td", "th"):
            return
        return self.m_in_table(t)

    def close_cell(self):
        self.implied_end_tags()
        self.pop_until("td", "th")
        self.clear_afe_to_marker()
        self.mode = "in_row"

    def m_in_cell(self, t):
        k = t[0]
        if k == "end" and t[1] in ("td", "th"):
            if not self.in_table_scope(t[1]):
                return
            self.implied_end_tags()
            self.pop_until(t[1])
            self.clear_afe_to_marker()
            self.mode = "in_row"
            return
        if k == "start" and t[1] in ("caption", "col", "colgroup", "tbody", "td", "tfoot", "th", "thead", "tr"):
            if not self.in_table_scope(("td", "th")):
                return
            close_cell(self)
            return REPROCESS
        if k == "end" and t[1] in ("body", "caption", "col", "colgroup", "html"):
            return
        if k == "end" and t[1] in ("table", "tbody", "tfoot", "thead", "tr"):
            if not self.in_table_scope(t[1]):
                return
            close_cell(self)
            return REPROCESS
        if k == "ws" and "cell-caption-space-not-in-body-rules" in self.sw:
            self.insert_text(t[1])
            return
        return self.m_in_body(t)

    # ================================================================== select
    def m_in_select(self, t):
        k = t[0]
        if k == "nul":
            return
        if k in ("ws", "char"):
            self.insert_text(t[1])
            return
        if k == "comment":
            self.insert_comment(t[1])
            return
        if k == "doctype":
            return
        if k == "start":
            nm = t[1]
            if nm == "html":
                return self.m_in_body(t)
            if nm == "option":
                if self.cur.is_html("option"):
                    self.stack.pop()
                self.insert_element(nm, t[2])
                return
            if nm == "optgroup":
                if self.cur.is_html("option"):
                    self.stack.pop()
                if self.cur.is_html("optgroup"):
                    self.stack.pop()
                self.insert_element(nm, t[2])
                return
            if nm == "select":
                if not self.in_select_scope("select"):
                    return
                self.pop_until("select")
                self.reset_mode()
                return
            if nm in ("input", "keygen", "textarea"):
                if not self.in_select_scope("select"):
                    return
                self.pop_until("select")
                self.reset_mode()
                return REPROCESS
            if nm in ("script", "template"):
                if nm == "template" and "template-unsupported" not in self.sw:
                    raise NotModelled("template")
                if nm == "script":
                    return self.m_in_head(t)
            return
        if k == "end":
            nm = t[1]
            if nm == "optgroup":
                if self.cur.is_html("option") and len(self.stack) >= 2 and self.stack[-2].is_html("optgroup"):
                    self.stack.pop()
                if self.cur.is_html("optgroup"):
                    self.stack.pop()
                return
            if nm == "option":
                if self.cur.is_html("option"):
                    self.stack.pop()
                return
            if nm == "select":
                if not self.in_select_scope("select"):
                    return
                self.pop_until("select")
                self.reset_mode()
                return
            if nm == "template" and "template-unsupported" not in self.sw:
                raise NotModelled("template")
            return
        if k == "eof":
            return self.m_in_body(t)

    def m_in_select_in_table(self, t):
        k = t[0]
        if k == "start" and t[1] in ("caption", "table", "tbody", "tfoot", "thead", "tr", "td", "th"):
            self.pop_until("select")
            self.reset_mode()
            return REPROCESS
        if k == "end" and t[1] in ("caption", "table", "tbody", "tfoot", "thead", "tr", "td", "th"):
            if not self.in_table_scope(t[1]):
                return
            self.pop_until("select")
            self.reset_mode()
            return REPROCESS
        return m_in_select(self, t)

    # ================================================================== after body / frameset
    def m_after_body(self, t):
        k = t[0]
        if k == "ws":
            if "after-body-space-no-reconstruct" in self.sw:
                self.insert_text(t[1])
                return
            return self.m_in_body(t)
        if k == "comment":
            self.insert_comment(t[1], (self.stack[0], None))
            return
        if k == "doctype":
            return
        if k == "start" and t[1] == "html":
            return self.m_in_body(t)
        if k == "end" and t[1] == "html":
            if self.fragment:
                return
            self.mode = "after_after_body"
            return
        if k == "eof":
            return self.stop()
        self.mode = "in_body"
        return REPROCESS

    def m_in_frameset(self, t):
        k = t[0]
        if k == "ws":
            self.insert_text(t[1])
            return
        if k == "comment":
            self.insert_comment(t[1])
            return
        if k == "doctype":
            return
        if k == "start":
            nm = t[1]
            if nm == "html":
                return self.m_in_body(t)
            if nm == "frameset":
                self.insert_element(nm, t[2])
                return
            if nm == "frame":
                self.insert_element(nm, t[2])
                self.stack.pop()
                return
            if nm == "noframes":
                return self.m_in_head(t)
            return
        if k == "end" and t[1] == "frameset":
            if self.cur.is_html("html"):
                return
            self.stack.pop()
            if not self.fragment and not self.cur.is_html("frameset"):
                self.mode = "after_frameset"
            return
        if k == "eof":
            return self.stop()
        return

    def m_after_frameset(self, t):
        k = t[0]
        if k == "ws":
            self.insert_text(t[1])
            return
        if k == "comment":
            self.insert_comment(t[1])
            return
        if k == "doctype":
            return
        if k == "start" and t[1] == "html":
            return self.m_in_body(t)
        if k == "end" and t[1] == "html":
            self.mode = "after_after_frameset"
            return
        if k == "start" and t[1] == "noframes":
            return self.m_in_head(t)
        if k == "eof":
            return self.stop()
        return

    def m_after_after_body(self, t):
        k = t[0]
        if k == "comment":
            self.insert_comment(t[1], (self.doc, None))
            return
        if k in ("doctype", "ws") or (k == "start" and t[1] == "html"):
            return self.m_in_body(t)
        if k == "eof":
            return self.stop()
        self.mode = "in_body"
        return REPROCESS

    def m_after_after_frameset(self, t):
        k = t[0]
        if k == "comment":
            self.insert_comment(t[1], (self.doc, None))
            return
        if k in ("doctype", "ws") or (k == "start" and t[1] == "html"):
            return self.m_in_body(t)
        if k == "eof":
            return self.stop()
        if k == "start" and t[1] == "noframes":
            return self.m_in_head(t)
        return

    # ================================================================== foreign content
    def foreign(self, t):
        k = t[0]
        if k == "nul":
            self.insert_text("\ufffd" * len(t[1]))
            return
        if k == "ws":
            self.insert_text(t[1])
            return
        if k == "char":
            self.insert_text(t[1])
            self.frameset_ok = False
            return
        if k == "comment":
            self.insert_comment(t[1])
            return
        if k == "doctype":
            return
        if k == "start":
            nm, attrs = t[1], t[2]
            is_break = nm in BREAKOUT or (nm == "font" and any(a in ("color", "face", "size") for a, v in attrs))
            if is_break:
                if self.fragment and "foreign-breakout-in-fragment-as-2020" in self.sw:
                    pass  # (2020 text: in the fragment case act as "any other start tag") -- R adopts html5lib here, see DESIGN App. A
                else:
                    while not (self.cur.ns == HTML or self.is_mathml_text_ip(self.cur) or self.is_html_ip(self.cur)):
                        self.stack.pop()
                    return REPROCESS
            acn = self.adjusted_cur()
            ns = acn.ns
            if ns == SVG and nm in SVG_TAGS:
                nm = SVG_TAGS[nm]
            self.insert_foreign(nm, self.adjust_foreign_attrs(attrs, ns), ns)
            if t[3]:
                self.stack.pop()
            return
        if k == "end":
            nm = t[1]
            i = len(self.stack) - 1
            node = self.stack[i]
            first = True
            while True:
                if i == 0:
                    return
                lname = "".join(c.lower() if "A" <= c <= "Z" else c for c in node.name)
                if lname == nm:
                    if self.mode == "in_table_text" and "table-text-regardless-of-current-node" in self.sw:
                        flush_table_text(self)
                    del self.stack[i:]
                    return
                i -= 1
                node = self.stack[i]
                if node.ns == HTML:
                    break
            return getattr(self, "m_" + self.mode)(t)

    for f in (m_in_body, body_start, body_end, m_in_table, m_in_table_text, flush_table_text, m_in_caption, m_in_column_group, m_in_table_body, m_in_row,
              m_in_cell, m_in_select, m_in_select_in_table, m_after_body, m_in_frameset, m_after_frameset, m_after_after_body,
              m_after_after_frameset, foreign):
        setattr(RTree, f.__name__, f)
