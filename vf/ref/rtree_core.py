"""R-tree core: minimal DOM, stack/AFE algorithms, insertion, adoption agency.  Written from the WHATWG standard
(2020 text, DESIGN Appendix A); shares nothing with html5lib.  Mode handlers live in rtree_modes.py."""
HTML = "http://www.w3.org/1999/xhtml"
MATHML = "http://www.w3.org/1998/Math/MathML"
SVG = "http://www.w3.org/2000/svg"
XLINK = "http://www.w3.org/1999/xlink"
XMLNS_XML = "http://www.w3.org/XML/1998/namespace"
XMLNS = "http://www.w3.org/2000/xmlns/"
WS = "\t\n\x0c\r "

MARKER = object()


class N(object):
    __slots__ = ("kind", "ns", "name", "attrs", "children", "parent", "data")

    def __init__(self, kind, name=None, ns=None, attrs=None, data=None):
        self.kind, self.name, self.ns = kind, name, ns
        self.attrs = attrs if attrs is not None else []
        self.children = []
        self.parent = None
        self.data = data

    def attr(self, key):
        for k, v in self.attrs:
            if k == key:
                return v
        return None

    def append(self, c):
        if c.parent is not None:
            c.parent.children.remove(c)
        c.parent = self
        self.children.append(c)

    def insert_before(self, c, ref):
        if c.parent is not None:
            c.parent.children.remove(c)
        c.parent = self
        self.children.insert(self.children.index(ref), c)

    def remove(self, c):
        self.children.remove(c)
        c.parent = None

    def is_html(self, *names):
        return self.kind == "el" and self.ns == HTML and (not names or self.name in names)


def H(*names):
    return frozenset((HTML, n) for n in names)


SPECIAL = H("address", "applet", "area", "article", "aside", "base", "basefont", "bgsound", "blockquote", "body", "br", "button", "caption",
            "center", "col", "colgroup", "dd", "details", "dir", "div", "dl", "dt", "embed", "fieldset", "figcaption", "figure", "footer",
            "form", "frame", "frameset", "h1", "h2", "h3", "h4", "h5", "h6", "head", "header", "hgroup", "hr", "html", "iframe", "img",
            "input", "keygen", "li", "link", "listing", "main", "marquee", "menu", "meta", "nav", "noembed", "noframes", "noscript",
            "object", "ol", "p", "param", "plaintext", "pre", "script", "section", "select", "source", "style", "summary", "table",
            "tbody", "td", "template", "textarea", "tfoot", "th", "thead", "title", "tr", "track", "ul", "wbr", "xmp") | frozenset([
                (MATHML, "mi"), (MATHML, "mo"), (MATHML, "mn"), (MATHML, "ms"), (MATHML, "mtext"), (MATHML, "annotation-xml"),
                (SVG, "foreignObject"), (SVG, "desc"), (SVG, "title")])
SCOPE_DEFAULT = H("applet", "caption", "html", "table", "td", "th", "marquee", "object", "template") | frozenset([
    (MATHML, "mi"), (MATHML, "mo"), (MATHML, "mn"), (MATHML, "ms"), (MATHML, "mtext"), (MATHML, "annotation-xml"),
    (SVG, "foreignObject"), (SVG, "desc"), (SVG, "title")])
SCOPE_LIST = SCOPE_DEFAULT | H("ol", "ul")
SCOPE_BUTTON = SCOPE_DEFAULT | H("button")
SCOPE_TABLE = H("html", "table", "template")
IMPLIED_END = ("dd", "dt", "li", "optgroup", "option", "p", "rb", "rp", "rt", "rtc")
FORMATTING = ("a", "b", "big", "code", "em", "font", "i", "nobr", "s", "small", "strike", "strong", "tt", "u")
HEADINGS = ("h1", "h2", "h3", "h4", "h5", "h6")

# html5lib's own notion of "special" on the pinned tree (switch special-set-html5lib)
SPECIAL_H5 = H("address", "applet", "area", "article", "aside", "base", "basefont", "bgsound", "blockquote", "body", "br", "button", "caption",
               "center", "col", "colgroup", "command", "dd", "details", "dir", "div", "dl", "dt", "embed", "fieldset", "figure", "footer",
               "form", "frame", "frameset", "h1", "h2", "h3", "h4", "h5", "h6", "head", "header", "hr", "html", "iframe", "image", "img",
               "input", "isindex", "li", "link", "listing", "marquee", "menu", "meta", "nav", "noembed", "noframes", "noscript", "object",
               "ol", "p", "param", "plaintext", "pre", "script", "section", "select", "style", "table", "tbody", "td", "textarea",
               "tfoot", "th", "thead", "title", "tr", "ul", "wbr", "xmp") | frozenset([(SVG, "foreignObject")])

SVG_TAGS = dict((k.lower(), k) for k in [
    "altGlyph", "altGlyphDef", "altGlyphItem", "animateColor", "animateMotion", "animateTransform", "clipPath", "feBlend",
    "feColorMatrix", "feComponentTransfer", "feComposite", "feConvolveMatrix", "feDiffuseLighting", "feDisplacementMap",
    "feDistantLight", "feDropShadow", "feFlood", "feFuncA", "feFuncB", "feFuncG", "feFuncR", "feGaussianBlur", "feImage",
    "feMerge", "feMergeNode", "feMorphology", "feOffset", "fePointLight", "feSpecularLighting", "feSpotLight", "feTile",
    "feTurbulence", "foreignObject", "glyphRef", "linearGradient", "radialGradient", "textPath"])
SVG_ATTRS = dict((k.lower(), k) for k in [
    "attributeName", "attributeType", "baseFrequency", "baseProfile", "calcMode", "clipPathUnits", "diffuseConstant", "edgeMode",
    "filterUnits", "glyphRef", "gradientTransform", "gradientUnits", "kernelMatrix", "kernelUnitLength", "keyPoints", "keySplines",
    "keyTimes", "lengthAdjust", "limitingConeAngle", "markerHeight", "markerUnits", "markerWidth", "maskContentUnits", "maskUnits",
    "numOctaves", "pathLength", "patternContentUnits", "patternTransform", "patternUnits", "pointsAtX", "pointsAtY", "pointsAtZ",
    "preserveAlpha", "preserveAspectRatio", "primitiveUnits", "refX", "refY", "repeatCount", "repeatDur", "requiredExtensions",
    "requiredFeatures", "specularConstant", "specularExponent", "spreadMethod", "startOffset", "stdDeviation", "stitchTiles",
    "surfaceScale", "systemLanguage", "tableValues", "targetX", "targetY", "textLength", "viewBox", "viewTarget", "xChannelSelector",
    "yChannelSelector", "zoomAndPan",
    # ~adopt (DESIGN App. A): dropped from the standard's table around 2016; date not certain, so R follows html5lib
    "contentScriptType", "contentStyleType", "externalResourcesRequired", "filterRes"])
FOREIGN_ATTRS = {
    "xlink:actuate": (XLINK, "actuate"), "xlink:arcrole": (XLINK, "arcrole"), "xlink:href": (XLINK, "href"), "xlink:role": (XLINK, "role"),
    "xlink:show": (XLINK, "show"), "xlink:title": (XLINK, "title"), "xlink:type": (XLINK, "type"), "xml:lang": (XMLNS_XML, "lang"),
    "xml:space": (XMLNS_XML, "space"), "xmlns": (XMLNS, "xmlns"), "xmlns:xlink": (XMLNS, "xlink")}
# html5lib also adjusts xml:base (part of the standard until 2017) -- switch foreign-attr-xml-base
BREAKOUT = frozenset(["b", "big", "blockquote", "body", "br", "center", "code", "dd", "div", "dl", "dt", "em", "embed", "h1", "h2", "h3", "h4",
                      "h5", "h6", "head", "hr", "i", "img", "li", "listing", "menu", "meta", "nobr", "ol", "p", "pre", "ruby", "s", "small",
                      "span", "strong", "strike", "sub", "sup", "table", "tt", "u", "ul", "var"])

QUIRKS_PUBLIC_PREFIXES = [p.lower() for p in [
    "+//Silmaril//dtd html Pro v0r11 19970101//", "-//AS//DTD HTML 3.0 asWedit + extensions//", "-//AdvaSoft Ltd//DTD HTML 3.0 asWedit + extensions//",
    "-//IETF//DTD HTML 2.0 Level 1//", "-//IETF//DTD HTML 2.0 Level 2//", "-//IETF//DTD HTML 2.0 Strict Level 1//", "-//IETF//DTD HTML 2.0 Strict Level 2//",
    "-//IETF//DTD HTML 2.0 Strict//", "-//IETF//DTD HTML 2.0//", "-//IETF//DTD HTML 2.1E//", "-//IETF//DTD HTML 3.0//", "-//IETF//DTD HTML 3.2 Final//",
    "-//IETF//DTD HTML 3.2//", "-//IETF//DTD HTML 3//", "-//IETF//DTD HTML Level 0//", "-//IETF//DTD HTML Level 1//", "-//IETF//DTD HTML Level 2//",
    "-//IETF//DTD HTML Level 3//", "-//IETF//DTD HTML Strict Level 0//", "-//IETF//DTD HTML Strict Level 1//", "-//IETF//DTD HTML Strict Level 2//",
    "-//IETF//DTD HTML Strict Level 3//", "-//IETF//DTD HTML Strict//", "-//IETF//DTD HTML//", "-//Metrius//DTD Metrius Presentational//",
    "-//Microsoft//DTD Internet Explorer 2.0 HTML Strict//", "-//Microsoft//DTD Internet Explorer 2.0 HTML//", "-//Microsoft//DTD Internet Explorer 2.0 Tables//",
    "-//Microsoft//DTD Internet Explorer 3.0 HTML Strict//", "-//Microsoft//DTD Internet Explorer 3.0 HTML//", "-//Microsoft//DTD Internet Explorer 3.0 Tables//",
    "-//Netscape Comm. Corp.//DTD HTML//", "-//Netscape Comm. Corp.//DTD Strict HTML//", "-//O'Reilly and Associates//DTD HTML 2.0//",
    "-//O'Reilly and Associates//DTD HTML Extended 1.0//", "-//O'Reilly and Associates//DTD HTML Extended Relaxed 1.0//",
    "-//SQ//DTD HTML 2.0 HoTMetaL + extensions//", "-//SoftQuad Software//DTD HoTMetaL PRO 6.0::19990601::extensions to HTML 4.0//",
    "-//SoftQuad//DTD HoTMetaL PRO 4.0::19971010::extensions to HTML 4.0//", "-//Spyglass//DTD HTML 2.0 Extended//", "-//Sun Microsystems Corp.//DTD HotJava HTML//",
    "-//Sun Microsystems Corp.//DTD HotJava Strict HTML//", "-//W3C//DTD HTML 3 1995-03-24//", "-//W3C//DTD HTML 3.2 Draft//", "-//W3C//DTD HTML 3.2 Final//",
    "-//W3C//DTD HTML 3.2//", "-//W3C//DTD HTML 3.2S Draft//", "-//W3C//DTD HTML 4.0 Frameset//", "-//W3C//DTD HTML 4.0 Transitional//",
    "-//W3C//DTD HTML Experimental 19960712//", "-//W3C//DTD HTML Experimental 970421//", "-//W3C//DTD W3 HTML//", "-//W3O//DTD W3 HTML 3.0//",
    "-//WebTechs//DTD Mozilla HTML 2.0//", "-//WebTechs//DTD Mozilla HTML//"]]


class NotModelledCore(Exception):
    pass


class Core(object):
    def __init__(self, scripting=False, switches=()):
        self.sw = frozenset(switches)
        self.scripting = scripting
        self.doc = N("doc")
        self.stack = []
        self.afe = []
        self.head = None
        self.form = None
        self.frameset_ok = True
        self.foster = False
        self.quirks = "no"
        self.context = None
        self.fragment = False

    # ------------------------------------------------------------------ stack helpers
    @property
    def cur(self):
        return self.stack[-1] if self.stack else None

    def adjusted_cur(self):
        if self.fragment and len(self.stack) == 1:
            return self.context
        return self.cur

    def special(self, node):
        s = SPECIAL_H5 if "special-set-html5lib" in self.sw else SPECIAL
        return (node.ns, node.name) in s

    def in_scope_generic(self, pred, boundary):
        notmpl = "template-unsupported" in self.sw
        for node in reversed(self.stack):
            if pred(node):
                return True
            if (node.ns, node.name) in boundary and not (notmpl and node.name == "template" and node.ns == HTML):
                return False
        return False

    def in_scope(self, names, boundary=SCOPE_DEFAULT):
        if isinstance(names, str):
            names = (names,)
        return self.in_scope_generic(lambda n: n.ns == HTML and n.name in names, boundary)

    def node_in_scope(self, target, boundary=SCOPE_DEFAULT):
        return self.in_scope_generic(lambda n: n is target, boundary)

    def in_button_scope(self, names):
        return self.in_scope(names, SCOPE_BUTTON)

    def in_list_scope(self, names):
        return self.in_scope(names, SCOPE_LIST)

    def in_table_scope(self, names):
        return self.in_scope(names, SCOPE_TABLE)

    def in_select_scope(self, names):
        if isinstance(names, str):
            names = (names,)
        for node in reversed(self.stack):
            if node.ns == HTML and node.name in names:
                return True
            if not (node.ns == HTML and node.name in ("optgroup", "option")):
                return False
        return False

    def stack_has(self, *names):
        return any(n.ns == HTML and n.name in names for n in self.stack)

    def pop_until(self, *names):
        anyns = "pop-until-ignores-namespace" in self.sw
        while self.stack:
            n = self.stack.pop()
            if (n.ns == HTML or anyns) and n.name in names:
                return n

    def pop_until_node(self, node):
        while self.stack:
            if self.stack.pop() is node:
                return

    def implied_end_tags(self, exclude=None):
        names = IMPLIED_END
        if "ruby-no-rb-rtc" in self.sw:
            names = ("dd", "dt", "li", "optgroup", "option", "p", "rp", "rt")
        anyns = "implied-end-tags-ignore-namespace" in self.sw
        while self.cur is not None and (self.cur.ns == HTML or anyns) and self.cur.name in names and self.cur.name != exclude:
            self.stack.pop()

    # ------------------------------------------------------------------ insertion
    def insertion_place(self, override=None):
        target = override if override is not None else self.cur
        if self.foster and (target.ns == HTML or "foster-target-test-by-name" in self.sw) and \
                target.name in ("table", "tbody", "tfoot", "thead", "tr"):
            last_table = None
            for n in reversed(self.stack):
                if (n.ns == HTML or "foster-target-test-by-name" in self.sw) and n.name == "table":
                    last_table = n
                    break
            if last_table is None:
                return self.stack[0], None
            if last_table.parent is not None:
                return last_table.parent, last_table
            return self.stack[self.stack.index(last_table) - 1], None
        return target, None

    def insert_node(self, node, place):
        parent, before = place
        if before is None:
            parent.append(node)
        else:
            parent.insert_before(node, before)

    def insert_text(self, s, place=None):
        if not s:
            return
        parent, before = place if place is not None else self.insertion_place()
        if parent.kind == "doc":
            return
        if before is None:
            prev = parent.children[-1] if parent.children else None
        else:
            i = parent.children.index(before)
            prev = parent.children[i - 1] if i > 0 else None
        if prev is not None and prev.kind == "text":
            prev.data += s
        else:
            self.insert_node(N("text", data=s), (parent, before))

    def insert_comment(self, data, place=None):
        self.insert_node(N("comment", data=data), place if place is not None else self.insertion_place())

    def create_element(self, name, attrs, ns=HTML):
        return N("el", name, ns, list(attrs))

    def insert_element(self, name, attrs, ns=HTML):
        el = self.create_element(name, attrs, ns)
        self.insert_node(el, self.insertion_place())
        self.stack.append(el)
        return el

    def insert_foreign(self, name, attrs, ns):
        return self.insert_element(name, attrs, ns)

    # ------------------------------------------------------------------ active formatting elements
    def push_afe(self, el):
        # Noah's Ark clause
        cnt = 0
        for e in reversed(self.afe):
            if e is MARKER:
                break
            if e.name == el.name and e.ns == el.ns and sorted(e.attrs) == sorted(el.attrs):
                cnt += 1
                if cnt == 3:
                    self.afe.remove(e)
                    break
        self.afe.append(el)

    def reconstruct_afe(self):
        if not self.afe:
            return
        entry = self.afe[-1]
        if entry is MARKER or entry in self.stack:
            return
        i = len(self.afe) - 1
        while i > 0:
            i -= 1
            entry = self.afe[i]
            if entry is MARKER or entry in self.stack:
                i += 1
                break
        while i < len(self.afe):
            entry = self.afe[i]
            el = self.insert_element(entry.name, list(entry.attrs), entry.ns)
            self.afe[i] = el
            i += 1

    def clear_afe_to_marker(self):
        while self.afe:
            if self.afe.pop() is MARKER:
                break

    def afe_element_after_marker(self, name):
        for e in reversed(self.afe):
            if e is MARKER:
                return None
            if e.ns == HTML and e.name == name:
                return e
        return None

    # ------------------------------------------------------------------ adoption agency
    def any_other_end_tag(self, name):
        anyns = "end-tag-other-ignores-namespace" in self.sw
        for node in reversed(self.stack):
            if (node.ns == HTML or anyns) and node.name == name:
                self.implied_end_tags(exclude=name)
                self.pop_until_node(node)
                return
            if self.special(node):
                return

    def adoption_agency(self, subject):
        if "aaa-html5lib" in self.sw:
            return self.adoption_agency_h5(subject)
        c = self.cur
        if c.ns == HTML and c.name == subject and c not in self.afe:
            self.stack.pop()
            return
        outer = 0
        while outer < 8:
            outer += 1
            fmt = self.afe_element_after_marker(subject)
            if fmt is None:
                return self.any_other_end_tag(subject)
            if fmt not in self.stack:
                self.afe.remove(fmt)
                return
            if not self.node_in_scope(fmt):
                return
            fi = self.stack.index(fmt)
            furthest = None
            for n in self.stack[fi + 1:]:
                if self.special(n):
                    furthest = n
                    break
            if furthest is None:
                del self.stack[fi:]
                self.afe.remove(fmt)
                return
            common = self.stack[fi - 1]
            bookmark = self.afe.index(fmt)      # position: "just before fmt"
            node = last = furthest
            inner = 0
            idx = self.stack.index(node)
            while True:
                inner += 1
                idx -= 1
                node = self.stack[idx]
                if node is fmt:
                    break
                if inner > 3 and node in self.afe:
                    if self.afe.index(node) < bookmark:
                        bookmark -= 1
                    self.afe.remove(node)
                if node not in self.afe:
                    self.stack.remove(node)
                    continue
                clone = self.create_element(node.name, list(node.attrs), node.ns)
                self.afe[self.afe.index(node)] = clone
                self.stack[self.stack.index(node)] = clone
                node = clone
                if last is furthest:
                    bookmark = self.afe.index(node) + 1
                node.append(last)
                last = node
            if last.parent is not None:
                last.parent.remove(last)
            saved = self.foster
            self.foster = True
            place = self.insertion_place(common)
            self.foster = saved
            self.insert_node(last, place)
            clone = self.create_element(fmt.name, list(fmt.attrs), fmt.ns)
            for ch in list(furthest.children):
                clone.append(ch)
            furthest.append(clone)
            if self.afe.index(fmt) < bookmark:
                bookmark -= 1
            self.afe.remove(fmt)
            self.afe.insert(bookmark, clone)
            self.stack.remove(fmt)
            self.stack.insert(self.stack.index(furthest) + 1, clone)

    def adoption_agency_h5(self, subject):
        """html5lib's endTagFormatting on the pinned tree, step for step (listed finding aaa-html5lib)."""
        outer = 0
        while outer < 8:
            outer += 1
            fmt = None
            for e in reversed(self.afe):
                if e is MARKER:
                    break
                if e.name == subject:
                    fmt = e
                    break
            if fmt is None or (fmt in self.stack and not self.in_scope(fmt.name)):
                return self.any_other_end_tag(subject)
            if fmt not in self.stack:
                self.afe.remove(fmt)
                return
            fi = self.stack.index(fmt)
            furthest = None
            for n in self.stack[fi:]:
                if self.special(n):
                    furthest = n
                    break
            if furthest is None:
                del self.stack[fi:]
                self.afe.remove(fmt)
                return
            common = self.stack[fi - 1]
            bookmark = self.afe.index(fmt)
            last = node = furthest
            inner = 0
            idx = self.stack.index(node)
            while inner < 3:
                inner += 1
                idx -= 1
                node = self.stack[idx]
                if node not in self.afe:
                    self.stack.remove(node)
                    continue
                if node is fmt:
                    break
                if last is furthest:
                    bookmark = self.afe.index(node) + 1
                clone = self.create_element(node.name, list(node.attrs), node.ns)
                self.afe[self.afe.index(node)] = clone
                self.stack[self.stack.index(node)] = clone
                node = clone
                if last.parent is not None:
                    last.parent.remove(last)
                node.append(last)
                last = node
            if last.parent is not None:
                last.parent.remove(last)
            if common.name in ("table", "tbody", "tfoot", "thead", "tr"):
                saved = self.foster
                self.foster = True
                # getTableMisnestedNodePosition ignores the override target: it works from the last table on the stack
                lt = None
                for n in reversed(self.stack):
                    if n.name == "table":
                        lt = n
                        break
                self.foster = saved
                if lt is not None and lt.parent is not None:
                    lt.parent.insert_before(last, lt)
                elif lt is not None:
                    self.stack[self.stack.index(lt) - 1].append(last)
                else:
                    self.stack[0].append(last)
            else:
                common.append(last)
            clone = self.create_element(fmt.name, list(fmt.attrs), fmt.ns)
            for ch in list(furthest.children):
                clone.append(ch)
            furthest.append(clone)
            self.afe.remove(fmt)
            self.afe.insert(bookmark, clone)
            self.stack.remove(fmt)
            self.stack.insert(self.stack.index(furthest) + 1, clone)

    # ------------------------------------------------------------------ reset insertion mode
    def reset_mode(self):
        for i in range(len(self.stack) - 1, -1, -1):
            node = self.stack[i]
            last = i == 0
            if last and self.fragment:
                node = self.context
            if node.ns == HTML:
                nm = node.name
                if nm == "select":
                    if not last:
                        for anc in reversed(self.stack[:i]):
                            if anc.is_html("template"):
                                break
                            if anc.is_html("table"):
                                self.mode = "in_select_in_table"
                                return
                    self.mode = "in_select"
                    return
                if nm in ("td", "th") and (not last or "reset-mode-cell-context-in-fragment" in self.sw):
                    self.mode = "in_cell"
                    return
                if nm == "tr":
                    self.mode = "in_row"
                    return
                if nm in ("tbody", "thead", "tfoot"):
                    self.mode = "in_table_body"
                    return
                if nm == "caption":
                    self.mode = "in_caption"
                    return
                if nm == "colgroup":
                    self.mode = "in_column_group"
                    return
                if nm == "table":
                    self.mode = "in_table"
                    return
                if nm == "head" and not last:
                    self.mode = "in_head"
                    return
                if nm == "body":
                    self.mode = "in_body"
                    return
                if nm == "frameset":
                    self.mode = "in_frameset"
                    return
                if nm == "html":
                    self.mode = "before_head" if self.head is None else "after_head"
                    return
            if last:
                self.mode = "in_body"
                return

    # ------------------------------------------------------------------ output
    def flat(self):
        out = []
        root = self.doc
        out.append(("frag",) if self.fragment else ("doc",))
        top = self.stack_root.children if self.fragment else root.children
        st = [iter(top)]
        while st:
            n = next(st[-1], None)
            if n is None:
                st.pop()
                if st:
                    out.append(("E",))
                continue
            if n.kind == "text":
                if out and out[-1][0] == "T":
                    out[-1] = ("T", out[-1][1] + n.data)
                else:
                    out.append(("T", n.data))
            elif n.kind == "comment":
                out.append(("C", n.data))
            elif n.kind == "doctype":
                out.append(("D", n.name, n.data[0], n.data[1]))
            else:
                out.append(("S", n.ns, n.name, tuple(n.attrs)))
                st.append(iter(n.children))
        return out
