"""Thin access layer to the real code under test (imported from VERIF_REPO)."""
from . import common, canon

common.import_repo()
import html5lib  # noqa: E402
from html5lib import html5parser, treebuilders, treewalkers, serializer, constants  # noqa: E402
from html5lib import _tokenizer, _inputstream  # noqa: E402

_TB = {}


def tb(kind):
    """kind: 'etree' (root element form), 'etree-full', 'dom'."""
    if kind not in _TB:
        if kind == "etree":
            _TB[kind] = treebuilders.getTreeBuilder("etree")
        elif kind == "etree-full":
            _TB[kind] = treebuilders.getTreeBuilder("etree", fullTree=True)
        elif kind == "dom":
            _TB[kind] = treebuilders.getTreeBuilder("dom")
        else:
            raise ValueError(kind)
    return _TB[kind]


def canon_of(tree, kind):
    if kind == "dom":
        return canon.canon_dom(tree)
    return canon.canon_etree(tree)


def parse_doc(data, kind="etree-full", ns=True, scripting=False, strict=False, **kw):
    """-> (canon, parser, tree)"""
    p = html5parser.HTMLParser(tb(kind), strict=strict, namespaceHTMLElements=ns)
    tree = p.parse(data, scripting=scripting, **kw)
    return canon_of(tree, kind), p, tree


def parse_frag(data, container="div", kind="etree", ns=True, scripting=False, strict=False, **kw):
    p = html5parser.HTMLParser(tb(kind), strict=strict, namespaceHTMLElements=ns)
    tree = p.parseFragment(data, container=container, scripting=scripting, **kw)
    return canon_of(tree, kind), p, tree


def errors_of(p):
    """[(line, col, code, datavars-as-sorted-items)]"""
    out = []
    for pos, code, dv in p.errors:
        out.append((pos[0], pos[1], code, tuple(sorted((str(k), str(v)) for k, v in (dv or {}).items()))))
    return out


def walker(kind):
    return treewalkers.getTreeWalker("dom" if kind == "dom" else "etree")
