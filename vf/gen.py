"""Input generators (all seeded, all bounded).  DESIGN 3.1.

G1 soup(rng)            weighted token-level markup soup
G3 nesting(rng)         structure-aware misnesting from role classes
path families           pathological depth/length families (C03)
"""

FORMATTING = ["a", "b", "big", "code", "em", "font", "i", "nobr", "s", "small", "strike", "strong", "tt", "u"]
BLOCK = ["address", "article", "aside", "blockquote", "center", "details", "dialog", "dir", "div", "dl",
         "fieldset", "figcaption", "figure", "footer", "header", "hgroup", "main", "menu", "nav", "ol", "p",
         "section", "summary", "ul", "pre", "listing", "form", "h1", "h2", "h3", "h4", "h5", "h6"]
LISTISH = ["li", "dd", "dt"]
TABLE = ["table", "caption", "colgroup", "col", "tbody", "thead", "tfoot", "tr", "td", "th"]
SELECT = ["select", "option", "optgroup"]
RAWTEXT = ["style", "script", "xmp", "iframe", "noembed", "noframes", "noscript", "plaintext"]
RCDATA = ["title", "textarea"]
VOID = ["area", "base", "basefont", "bgsound", "br", "embed", "hr", "img", "input", "keygen", "link", "meta",
        "param", "source", "track", "wbr", "frame", "command", "image", "isindex", "event-source", "spacer"]
SCOPING = ["applet", "marquee", "object", "button"]
STRUCT = ["html", "head", "body", "frameset"]
RUBY = ["ruby", "rb", "rt", "rtc", "rp"]
FOREIGN = ["svg", "math", "mi", "mo", "mn", "ms", "mtext", "annotation-xml", "foreignObject", "foreignobject",
           "desc", "g", "path", "circle", "mglyph", "malignmark", "clipPath", "clippath", "textPath",
           "lineargradient", "altglyph", "femergenode", "mrow", "mfrac", "use", "animate", "set"]
UNKNOWN = ["template", "menuitem", "search", "span", "x-foo", "foo", "m", "h", "t", "l", "ht", "tm", "ml",
           "htm", "tml", "label", "output", "video", "audio", "canvas", "ins", "del", "map", "sub", "sup",
           "abbr", "cite", "time", "mark", "bdi", "bdo", "data", "datalist", "legend", "meter", "progress",
           "picture", "slot", "acronym", "blink", "multicol", "nextid", "rbx", "élément",
           "kK", "dİv", "datagrid"]
ALL_TAGS = (FORMATTING + BLOCK + LISTISH + TABLE + SELECT + RAWTEXT + RCDATA + VOID + SCOPING + STRUCT + RUBY +
            FOREIGN + UNKNOWN)
# weights: role classes get comparable probability mass
CLASSES = [(FORMATTING, 14), (BLOCK, 12), (LISTISH, 4), (TABLE, 14), (SELECT, 5), (RAWTEXT, 4), (RCDATA, 3),
           (VOID, 5), (SCOPING, 4), (STRUCT, 4), (RUBY, 3), (FOREIGN, 10), (UNKNOWN, 5)]
_CW = [w for _, w in CLASSES]

# HTML context element names for fragments (every element the standard defines + an unknown one)
CONTEXTS = sorted(set(
    FORMATTING + BLOCK + LISTISH + TABLE + SELECT + RAWTEXT + RCDATA + SCOPING + STRUCT + RUBY +
    ["area", "base", "br", "embed", "hr", "img", "input", "link", "meta", "param", "source", "track", "wbr",
     "span", "label", "output", "video", "audio", "canvas", "ins", "del", "map", "sub", "sup", "abbr", "cite",
     "time", "mark", "bdi", "bdo", "data", "datalist", "legend", "meter", "progress", "picture", "slot",
     "template", "x-unknown", "frame", "keygen", "basefont", "bgsound"]))

ATTR_NAMES = ["id", "class", "href", "src", "type", "name", "value", "title", "style", "encoding", "color",
              "face", "size", "xlink:href", "xlink:title", "xml:lang", "xml:base", "xmlns", "xmlns:xlink",
              "definitionurl", "definitionURL", "viewbox", "viewBox", "attributename", "checked", "disabled",
              "selected", "hidden", "action", "prompt", "charset", "http-equiv", "content", "a", "b",
              "{x}y", "onKlick", "x:y", "data-x", "lang", "dir", "open", "multiple", "irrelevant"]
ATTR_VALUES = ["", "x", "hidden", "HIDDEN", "text/html", "TEXT/HTML", "application/xhtml+xml", "a b", "\"", "'",
               "<", ">", "&amp;", "&lt", "a&b=c", "`", "=", "\t", "\n", "é", "\U0001F600", "utf-8",
               "javascript:alert(1)", "http://example.com/", "1", "red", "content-type",
               "text/html; charset=koi8-r", "checked", "disabled"]
WS = [" ", "\t", "\n", "\x0c", "\r", "\r\n", "  ", "\n\n"]
TEXTS = ["x", "foo", "a b", "1", "é", "\U0001F600", "\x00", "\x0b", "\x7f", "\x85", "﷐", "￾",
         "\ud800", "\udfff", "\U0010ffff", "K", "İ", "]]>", "--", "-", "!", "?", "/", "=", "\"", "'",
         "`", "&", "&amp;", "&lt;", "&gt", "&#x41;", "&#0;", "&#x80;", "&#xD800;", "&#1114112;", "&not", "&notit;",
         "&notin;", "&ampx", "&#", "&#x", "&;", "&amp", "&AMP;", "&nbsp;", "&#32;", "&#10;", "&#13;", "&#9;",
         "&#12;", "&unknown;", "<", ">", "< ", "<3", "</", "</ ", "<?php ?>", "<!x>", "hello world", " ",
         "　"]
COMMENTS = ["<!---->", "<!--x-->", "<!-->", "<!--->", "<!-- -- -->", "<!--x--!>", "<!--x--!y-->", "<!--x", "<!--",
            "<!-x-->", "<!--<!--x-->-->", "<!--x--", "<!--x-", "<!x>", "<?x?>", "</ x>", "<!--\x00-->",
            "<!--a--b-->", "<!--a<!--b-->", "<!---x-->", "<!--x--->", "<!-- <script> -->", "<![CDATA[x]]>",
            "<![CDATA[ ]]]>", "<![CDATA[<b>]]>", "<![CDATA[\x00]]>", "<![cdata[x]]>", "<![CDATA[x", "<!-- -- >"]
DOCTYPES = ["<!DOCTYPE html>", "<!doctype html>", "<!DOCTYPE>", "<!DOCTYPE html PUBLIC>", "<!DOCTYPE  HTML  >",
            "<!DOCTYPE html PUBLIC \"-//W3C//DTD HTML 4.01//EN\">",
            "<!DOCTYPE html PUBLIC \"-//W3C//DTD HTML 4.01 Transitional//EN\">",
            "<!DOCTYPE html PUBLIC \"-//W3C//DTD HTML 4.01 Transitional//EN\" \"http://www.w3.org/TR/html4/loose.dtd\">",
            "<!DOCTYPE html PUBLIC \"-//W3C//DTD XHTML 1.0 Transitional//EN\" \"x\">",
            "<!DOCTYPE html PUBLIC \"-//W3C//DTD XHTML 1.0 Frameset//EN\">",
            "<!DOCTYPE html PUBLIC '-//W3C//DTD HTML 3.2//EN'>", "<!DOCTYPE html PUBLIC \"HTML\">",
            "<!DOCTYPE html SYSTEM \"about:legacy-compat\">",
            "<!DOCTYPE html SYSTEM 'http://www.ibm.com/data/dtd/v11/ibmxhtml1-transitional.dtd'>",
            "<!DOCTYPE html PUBLIC \"-/W3C/DTD HTML 4.0 Transitional/EN\">", "<!DOCTYPE foo>", "<!DOCTYPE html x>",
            "<!DOCTYPE html PUBLIC \"a\" \"b\" c>", "<!DOCTYPE html PUBLIC\"a\"\"b\">", "<!DOCTYPE html SYSTEM\"b\">",
            "<!DOCTYPE html PUBLIC \"a>", "<!DOCTYPE html PUBLIC 'a' 'b", "<!DOCTYPE html SYSTEM", "<!DOCTYPE",
            "<!DOCTYPE\x00html>", "<!DOCTYPE h\x00tml PUBLIC \"\x00\" \"\x00\">", "<!DOCTYPEhtml>",
            "<!DOCTYPE HTML PUBLIC \"-//W3O//DTD W3 HTML Strict 3.0//EN//\">"]


def pick_tag(rng):
    cls = rng.choices(CLASSES, _CW)[0][0]
    t = rng.choice(cls)
    r = rng.random()
    if r < 0.04:
        t = t.upper()
    elif r < 0.06:
        t = t.capitalize()
    return t


def attrs(rng, maxn=3):
    n = rng.choice([0, 0, 0, 1, 1, 2, maxn])
    out = []
    for _ in range(n):
        name = rng.choice(ATTR_NAMES)
        if rng.random() < 0.05:
            name = name.upper()
        r = rng.random()
        v = rng.choice(ATTR_VALUES)
        if r < 0.15:
            out.append(" " + name)
        elif r < 0.5:
            out.append(' %s="%s"' % (name, v.replace('"', "&quot;")))
        elif r < 0.7:
            out.append(" %s='%s'" % (name, v.replace("'", "&#39;")))
        elif r < 0.9:
            out.append(" %s=%s" % (name, v.replace(" ", "").replace("\t", "").replace("\n", "").replace(">", "")
                                   or "x"))
        else:
            out.append(rng.choice([" %s = %s" % (name, "v"), "%s=%s" % (name, v), " %s=\"%s" % (name, v),
                                   " /%s" % name, " =%s" % name, " %s=" % name, " \"%s\"" % name,
                                   " %s<=x" % name, " %s=x\x00y" % name, " %s\x00z=1" % name]))
    return "".join(out)


def start_tag(rng, name=None):
    name = name or pick_tag(rng)
    s = "<" + name + attrs(rng)
    r = rng.random()
    if r < 0.06:
        s += "/"
    elif r < 0.08:
        s += " /"
    elif r < 0.09:
        return s  # unterminated
    return s + ">"


def end_tag(rng, name=None):
    name = name or pick_tag(rng)
    r = rng.random()
    if r < 0.03:
        return "</%s x=y>" % name
    if r < 0.05:
        return "</%s/>" % name
    if r < 0.06:
        return "</%s " % name
    return "</%s>" % name


def text(rng):
    n = rng.choice([1, 1, 1, 2, 3])
    return "".join(rng.choice(TEXTS) if rng.random() < 0.75 else rng.choice(WS) for _ in range(n))


def soup(rng, maxtok=30, prefix_p=0.35):
    """G1: markup soup as a string."""
    out = []
    if rng.random() < prefix_p:
        out.append(rng.choice(DOCTYPES))
    open_ = []
    n = rng.randint(1, maxtok)
    for _ in range(n):
        r = rng.random()
        if r < 0.38:
            t = pick_tag(rng)
            out.append(start_tag(rng, t))
            open_.append(t)
        elif r < 0.60:
            if open_ and rng.random() < 0.7:
                # close something that is open, not necessarily the innermost
                k = rng.choice([len(open_) - 1] * 3 + [rng.randrange(len(open_))])
                out.append(end_tag(rng, open_.pop(k)))
            else:
                out.append(end_tag(rng))
        elif r < 0.82:
            out.append(text(rng))
        elif r < 0.90:
            out.append(rng.choice(WS))
        elif r < 0.96:
            out.append(rng.choice(COMMENTS))
        else:
            out.append(rng.choice(DOCTYPES))
    if rng.random() < 0.3:
        while open_:
            out.append("</%s>" % open_.pop())
    s = "".join(out)
    if rng.random() < 0.08:
        s = s[:rng.randrange(len(s) + 1)]
    return s


def nesting(rng, maxdepth=8, maxitems=24):
    """G3: structure-aware misnesting: open elements from role classes, close in permuted order,
    aimed at foster parenting x adoption agency x select/table/foreign re-nesting."""
    roles = [FORMATTING, FORMATTING, BLOCK, TABLE, TABLE, LISTISH, SELECT, SCOPING, ["svg", "math", "foreignObject",
             "mi", "annotation-xml", "desc", "title"], RCDATA + ["style", "script"], RUBY, ["p", "div", "a", "b", "i"]]
    out = []
    open_ = []
    for _ in range(rng.randint(3, maxitems)):
        r = rng.random()
        if r < 0.5 and len(open_) < maxdepth:
            t = rng.choice(rng.choice(roles))
            out.append("<%s%s>" % (t, attrs(rng, 2) if rng.random() < 0.25 else ""))
            open_.append(t)
        elif r < 0.75 and open_:
            k = rng.choice([len(open_) - 1, len(open_) - 1, rng.randrange(len(open_)), 0])
            out.append("</%s>" % open_.pop(k))
        elif r < 0.92:
            out.append(rng.choice(["x", "y", " ", "\n", "a b", "&amp;", "\x00", "<!--c-->"]))
        else:
            out.append("</%s>" % rng.choice(rng.choice(roles)))
    rng.shuffle(open_)
    for t in open_[:rng.randint(0, len(open_))]:
        out.append("</%s>" % t)
    return "".join(out)


def foreign_collide(rng):
    """Foreign elements whose names collide with HTML table/select/list/formatting names, inside tables, selects, lists."""
    outer = rng.choice(["<table>", "<table><tbody>", "<table><thead>", "<table><tr>", "<table><tr><td>", "<table><caption>", "<select>", "<ul><li>",
                        "<p>", "<b>", "<button>", "<table><colgroup>", "<dl><dt>", "<ruby>", "<form>", ""])
    f = rng.choice(["<svg>", "<math>", "<svg><g>", "<math><mi>", "<svg><foreignObject>", "<math><annotation-xml>", "<svg><desc>"])
    names = ["table", "tbody", "thead", "tfoot", "tr", "td", "th", "caption", "colgroup", "col", "select", "option", "optgroup", "li", "dd", "dt", "p",
             "button", "a", "nobr", "form", "html", "body", "head", "frameset", "title", "textarea", "script", "style", "template", "rt", "rp", "object",
             "applet", "marquee", "input", "br", "hr", "h1", "div", "b", "font", "g", "mi",
             "desc", "foreignObject", "mtext", "annotation-xml", "desc", "foreignObject"]
    out = [outer, f]
    for _ in range(rng.randint(1, 5)):
        r = rng.random()
        n = rng.choice(names)
        if r < 0.5:
            out.append("<%s>" % n)
        elif r < 0.85:
            out.append("</%s>" % n)
        else:
            out.append(rng.choice(["x", " ", "\x00", "<!--c-->"]))
    for _ in range(rng.randint(0, 3)):
        out.append("</%s>" % rng.choice(names + ["svg", "math"]))
    return "".join(out)


def random_text(rng, n):
    """Random str over all planes incl. surrogates and markup-significant ASCII."""
    pools = ["<>/=\"'&#;!-?[] \t\n\r\x0c\x00abcxyzABCXYZ0123456789", "éİK�﷐￾ ",
             "\ud800􏰀\udfff", "\U0001F600\U0010ffff\U0001fffe"]
    out = []
    for _ in range(n):
        r = rng.random()
        if r < 0.8:
            out.append(rng.choice(pools[0]))
        elif r < 0.9:
            out.append(rng.choice(pools[1]))
        elif r < 0.95:
            out.append(rng.choice(pools[2]))
        elif r < 0.98:
            out.append(rng.choice(pools[3]))
        else:
            out.append(chr(rng.randrange(0x110000)))
    return "".join(out)


def mixed(rng, maxtok=30):
    """Default mixed workload: soup / nesting / random text."""
    r = rng.random()
    if r < 0.5:
        return soup(rng, maxtok)
    if r < 0.8:
        return nesting(rng)
    if r < 0.92:
        return foreign_collide(rng)
    return random_text(rng, rng.randint(1, 80))


def all_sequences(alphabet, max_len, i, n, joiner=""):
    """Slice i of n of EVERY sequence of 1..max_len symbols over alphabet (index arithmetic; nothing is materialised).
    -> (total, generator of joined strings)"""
    k = len(alphabet)
    total = sum(k ** l for l in range(1, max_len + 1))

    def it():
        idx = i
        while idx < total:
            r = idx
            l = 1
            while r >= k ** l:
                r -= k ** l
                l += 1
            parts = []
            for _ in range(l):
                parts.append(alphabet[r % k])
                r //= k
            yield joiner.join(parts)
            idx += n
    return total, it()


# the alphabet of the bounded-exhaustive token-sequence families (shared by several checks)
TOKEN_ALPHABET = ["<table>", "</table>", "<tr>", "<td>", "</td>", "<caption>", "<b>", "</b>", "<a>", "</a>", "<p>", "</p>", "<div>", "</div>",
                  "<li>", "<select>", "</select>", "<option>", "<form>", "</form>", "<button>", "<svg>", "</svg>", "<math>", "<mi>", "<desc>",
                  "<title>", "<frameset>", "</body>", "</html>", "<template>", "<nobr>", "<h1>", "<ruby>", "<rt>", "<object>", "</object>",
                  "<input type=hidden>", "<br>", "x", " ", "<!--c-->", "\x00"]


def token_sequences(ctx, quick_len, thorough_len, fraction=0.5, suffix="x", min_seconds=30.0):
    """Yield this shard's slice of EVERY sequence of 1..L tokens over TOKEN_ALPHABET (+ suffix); stops when `fraction` of
    the shard's time budget is used and records whether the enumeration was completed (counters
    sequence_shards_completed / sequence_shards_cut_short - a check should turn the latter into 'inconclusive')."""
    import time
    L = quick_len if ctx.tier == "quick" else thorough_len
    total, it = all_sequences(TOKEN_ALPHABET, L, ctx.i, ctx.n)
    t_end = time.time() + max(min_seconds, ctx.time_left() * fraction)
    cut = False
    for qi, q in enumerate(it):
        yield q + suffix
        if qi % 32 == 0 and time.time() > t_end:
            cut = True
            break
    ctx.count("sequence_shards_cut_short" if cut else "sequence_shards_completed")
    ctx.count("max:sequence_length", 0)
    ctx.counters["max:sequence_length"] = L


def sequences_inconclusive(m):
    if m["counters"].get("sequence_shards_cut_short", 0):
        m["inconclusive"].append("the bounded-exhaustive token-sequence family was cut short by the time budget in %d shard(s)" %
                                 m["counters"]["sequence_shards_cut_short"])
